'use strict'
// C05(e): the emitted prologue in three realms.
const vm = require('vm')
const { makeRealm, prepareContext, drive, runOne, compare } = require('./realm')

async function run (req) {
  const problems = []
  const dsts = req.dsts || []
  const base = { hooks: dsts, hookKinds: req.hookKinds, bare: req.bare, entry: req.entry, module: false, timeout: 2000, file: req.file }
  const seed = req.seed || 1
  // 1. no hook object at all: the prologue must define a pass-through for every configured name
  {
    const realm = makeRealm(seed, { ...base, noHooks: true })
    const ctx = prepareContext(realm)
    const r = await drive(ctx, realm, req.rewritten, base)
    const dd = vm.runInContext('typeof _ddiast === "undefined" ? undefined : _ddiast', ctx)
    if (!dd || typeof dd !== 'object') problems.push({ realm: 'none', kind: 'prologue-no-hook-object', outcome: r.outcome })
    else {
      for (const d of dsts) {
        if (typeof dd[d] !== 'function') { problems.push({ realm: 'none', kind: 'prologue-missing-name', name: d }); break }
        const token = { t: 1 }
        if (dd[d](token, 1, 2) !== token) { problems.push({ realm: 'none', kind: 'prologue-not-pass-through', name: d }); break }
      }
    }
    // and the file runs exactly like the original
    const a = await runOne(req.orig, seed, { ...base, noHooks: true, recording: false })
    const realm2 = makeRealm(seed, { ...base, noHooks: true })
    const ctx2 = prepareContext(realm2)
    const b = await drive(ctx2, realm2, req.rewritten, base)
    await new Promise(resolve => setImmediate(resolve))
    const c = compare(a, { outcome: b.outcome, log: realm2.log, side: realm2.side.slice().sort() })
    if (c.verdict === 'differ') problems.push({ realm: 'none', kind: 'prologue-run-differs', why: c.why })
  }
  // 2. a complete pre-existing hook object: identity and every property preserved
  {
    const realm = makeRealm(seed, { ...base })
    const pre = realm.globals._ddiast
    const before = {}
    for (const k of Object.keys(pre)) before[k] = pre[k]
    pre.extra = 'keep me'
    const ctx = prepareContext(realm)
    await drive(ctx, realm, req.rewritten, base)
    const dd = vm.runInContext('_ddiast', ctx)
    if (dd !== pre) problems.push({ realm: 'existing', kind: 'prologue-replaced-hook-object' })
    else {
      for (const k of Object.keys(before)) if (dd[k] !== before[k]) { problems.push({ realm: 'existing', kind: 'prologue-overwrote-hook', name: k }); break }
      if (dd.extra !== 'keep me') problems.push({ realm: 'existing', kind: 'prologue-overwrote-hook', name: 'extra' })
    }
  }
  // 3. hooks installed after the file has been loaded are the ones that get called
  let lateCalls = 0
  {
    const realm = makeRealm(seed, { ...base, noHooks: true })
    const ctx = prepareContext(realm)
    try { vm.runInContext(req.rewritten, ctx, { timeout: 2000, filename: req.file || 'p.js' }) } catch (e) { /* top level code may throw: same as the original */ }
    const dd = vm.runInContext('typeof _ddiast === "undefined" ? undefined : _ddiast', ctx)
    if (dd) {
      for (const d of dsts) dd[d] = function (res) { lateCalls++; return res }
      try {
        const f = vm.runInContext('typeof f === "function" ? f : undefined', ctx)
        if (f) {
          const g = vm.runInContext('globalThis', ctx)
          const box = { f, args: realm.args }
          Object.defineProperty(g, Symbol.for('verif.args'), { value: box, configurable: true })
          vm.runInContext('(() => { const box = globalThis[Symbol.for("verif.args")]; try { box.ret = box.f(...box.args) } catch (e) { } })()', ctx, { timeout: 2000 })
        }
      } catch (e) {}
    }
  }
  return { problems, lateCalls }
}

module.exports = { run }
