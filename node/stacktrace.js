'use strict'
// C11 / C12 package-level oracle: the REAL main.js, js/source-map and js/stack-trace of /repo are loaded;
// only `./wasm/wasm_iast_rewriter` is redirected to a shim that replays the result the harness computed
// natively from the current tree for that (code, file), and `lru-cache` resolves to the vendored v7.
const Module = require('module')
const path = require('path')
const fs = require('fs')
const os = require('os')

const REPO = process.env.VERIF_REPO || '/repo'
const table = new Map()
const byFile = new Map()
const tableSet = table.set.bind(table)
table.set = (k, v) => { byFile.set(k.split('\0')[0], v); return tableSet(k, v) }
let lastConfig = null
class ShimRewriter {
  constructor (config) { this.config = config; lastConfig = config }
  rewrite (code, file) {
    const k = file + '\0' + code
    // the package may hand the native rewriter something else than the caller's text: answer with the
    // result registered for that file (the oracle then sees what the package makes of it)
    const r = table.has(k) ? table.get(k) : byFile.get(file)
    if (!r) throw new Error('verif shim: no native result for ' + file)
    if (r.err !== undefined) throw new Error(r.err)
    return JSON.parse(JSON.stringify(r.ok))
  }
  csiMethods () { return [] }
  setLogger () {}
}
const shimPath = path.join(__dirname, 'native_shim.js')
require.cache[shimPath] = { id: shimPath, filename: shimPath, loaded: true, exports: { Rewriter: ShimRewriter }, children: [], paths: [] }

let hooked = false
// a fresh instance of the package for every history: its caches are module level state
function loadPackage () {
  if (!hooked) {
    hooked = true
    const origResolve = Module._resolveFilename
    Module._resolveFilename = function (request, parent, ...rest) {
      if (request === './wasm/wasm_iast_rewriter' && parent && parent.filename === path.join(REPO, 'main.js')) return shimPath
      if (request === 'lru-cache') return path.join(__dirname, 'vendor', 'lru-cache.js')
      return origResolve.call(this, request, parent, ...rest)
    }
  }
  for (const k of Object.keys(require.cache)) {
    if (k.startsWith(REPO + path.sep)) delete require.cache[k]
  }
  table.clear()
  const pkg = require(path.join(REPO, 'main.js'))
  if (pkg.Rewriter === pkg.DummyRewriter) throw new Error('package fell back to DummyRewriter')
  return pkg
}

function compileModule (content, file) {
  const m = new Module(file, null)
  m.filename = file
  m.paths = []
  m._compile(content, file)
  return m.exports
}

// ---- frame capture
const rawHandler = (e, cs) => cs.map(c => ({ fn: c.getFunctionName(), file: c.getFileName(), line: c.getLineNumber(), col: c.getColumnNumber(), isEval: c.isEval(), evalOrigin: c.isEval() ? c.getEvalOrigin() : undefined }))
function invoke (exportsObj, name, handler) {
  const saved = Error.prepareStackTrace
  const savedLimit = Error.stackTraceLimit
  Error.stackTraceLimit = 30
  try {
    Error.prepareStackTrace = handler
    try {
      const ret = exportsObj[name]({ s: 'x', x: null }, 'b')
      // a site may hand back a function made by eval inside the rewritten file: it is called from here, i.e. with no
      // ordinary frame of the rewritten file on the stack
      if (typeof ret === 'function') ret(undefined)
      return { threw: false }
    } catch (e) {
      let st
      try { st = e.stack } catch (e2) { return { threw: true, handlerThrew: String(e2 && e2.message) } }
      return { threw: true, stack: st, isError: e instanceof Error }
    }
  } finally { Error.prepareStackTrace = saved; Error.stackTraceLimit = savedLimit }
}
// `n` = number of frames of the trace: they are the last n `at ...` lines (the message may contain such lines too)
function parseStackString (s, n) {
  const all = parseStackLines(s)
  return (n !== undefined && all.length > n) ? all.slice(all.length - n) : all
}
function parseStackLines (s) {
  const out = []
  for (const line of String(s).split('\n')) {
    if (!/^\s*at /.test(line)) continue
    const m = /^\s*at (?:(.*?) \()?(.*?):(\d+):(\d+)\)?$/.exec(line)
    if (!m) { out.push({ fn: null, file: null, line: null, col: null, text: line.trim() }); continue }
    const ev = /eval at (\S+) \((.*?):(\d+):(\d+)\)/.exec(line)
    out.push({ fn: m[1] || null, file: m[2], line: +m[3], col: +m[4], text: line.trim(), evalAt: ev ? { fn: ev[1], file: ev[2], line: +ev[3], col: +ev[4] } : undefined })
  }
  return out
}

// a wrong location in a file whose latest rewrite was reported "not modified" is a stale cache entry
function wrongKind (cur) {
  const st = cur.step.native && cur.step.native.ok && cur.step.native.ok.metrics && cur.step.native.ok.metrics.status
  return st === 'notmodified' ? 'wrong-location-after-notmodified-rewrite' : 'wrong-location'
}

function expectFor (step, line) {
  // expected (path, line range) for an original-file line
  const span = (step.spans && step.spans[String(line)]) || [line, line]
  if (step.origMap) {
    const f = (l) => step.origMap.lineOf[String(l)]
    // a multi-line statement may straddle two sources of the bundle: any line of the statement is acceptable
    const so = step.origMap.sourceOf || {}
    const alts = []
    // (a source given as an absolute path or as a URL is the original path as it stands)
    const resolve = (src) => (path.isAbsolute(src) || /^[a-zA-Z][a-zA-Z0-9+.-]*:\/\//.test(src)) ? src : path.join(path.dirname(step.file), src)
    for (let l = span[0]; l <= span[1]; l++) alts.push({ path: resolve(so[String(l)] || step.origMap.source), line: f(l) })
    return { path: alts[0].path, lo: f(span[0]), hi: f(span[1]), alts }
  }
  return { path: step.file, lo: span[0], hi: span[1] }
}

function accept (want, file, line) {
  if (want.alts) return want.alts.some(a => a.path === file && (a.line === line || (line >= want.lo && line <= want.hi && want.alts.every(b => b.path === a.path))))
  return file === want.path && line >= want.lo && line <= want.hi
}

async function run (req) {
  const p = loadPackage()
  const rewriters = {}
  const latest = {} // file -> { content (what the package returned), code (original), step }
  const problems = []
  const late = []
  const notes = { probes: 0, framesChecked: 0, evalFrames: 0, lookups: 0 }
  for (let i = 0; i < req.steps.length; i++) {
    const step = req.steps[i]
    try {
      if (step.op === 'rewrite') {
        table.set(step.file + '\0' + step.code, step.native)
        const key = JSON.stringify(step.config || {})
        if (!rewriters[key]) rewriters[key] = new p.Rewriter(step.config || {})
        let res
        try { res = rewriters[key].rewrite(step.code, step.file) } catch (e) {
          if (step.native.err === undefined) problems.push({ step: i, kind: 'rewrite-threw', detail: String(e && e.message) })
          continue
        }
        if (step.native.err !== undefined) { problems.push({ step: i, kind: 'rewrite-did-not-throw' }); continue }
        latest[step.file] = { content: res.content, code: step.code, step }
      } else if (step.op === 'flood') {
        // many other files go through the same rewriter (a long-running process)
        const key = JSON.stringify(step.config || {})
        if (!rewriters[key]) rewriters[key] = new p.Rewriter(step.config || {})
        for (let k = 0; k < step.n; k++) {
          const f = '/virt/flood/f' + k + '.js'
          table.set(f + '\0' + step.code, step.native)
          rewriters[key].rewrite(step.code, f)
          table.delete(f + '\0' + step.code)
          byFile.delete(f)
        }
        notes.floods = (notes.floods || 0) + 1
      } else if (step.op === 'probe') {
        const cur = latest[step.file]
        if (!cur) continue
        notes.probes++
        // expected: the unrewritten program under the same path, plain V8
        const orig = compileModule(cur.code, step.file)
        const rewr = compileModule(cur.content, step.file)
        const userFrames = []
        const apiProblems = []
        // a handler may use any method of V8's CallSite API on what it is given
        const CALLSITE_API = ['getThis', 'getTypeName', 'getFunction', 'getFunctionName', 'getMethodName', 'getFileName', 'getLineNumber', 'getColumnNumber', 'getEvalOrigin', 'isToplevel', 'isEval', 'isNative', 'isConstructor', 'isAsync', 'isPromiseAll', 'getPromiseIndex', 'getScriptNameOrSourceURL', 'getScriptHash', 'getEnclosingLineNumber', 'getEnclosingColumnNumber', 'getPosition', 'toString']
        const userHandler = (e, cs) => { for (const c of cs) { if (c && c.callSite) { for (const m of CALLSITE_API) { if (typeof c.callSite[m] === 'function') { let bad = null; try { if (typeof c[m] !== 'function') bad = 'missing'; else c[m]() } catch (err) { bad = 'threw ' + (err && err.message) } if (bad && !apiProblems.length) apiProblems.push({ method: m, what: bad }) } } } userFrames.push({ fn: c.getFunctionName(), file: c.getFileName(), line: c.getLineNumber(), col: c.getColumnNumber(), raw: c.callSite ? { file: c.callSite.getFileName(), line: c.callSite.getLineNumber(), col: c.callSite.getColumnNumber() } : null, isEval: c.isEval(), evalOrigin: (() => { try { return c.getEvalOrigin() } catch (e) { return 'getEvalOrigin threw' } })(), str: (() => { try { return String(c) } catch (e) { return 'toString threw' } })() }) } return 'handled' }
        // all three runs are started from the same source line, so that the harness' own frames are identical
        const runs = [[orig, rawHandler], [rewr, p.getPrepareStackTrace(userHandler)], [rewr, p.getPrepareStackTrace(undefined)]]
        const outs = []
        for (const [mod, handler] of runs) outs.push(invoke(mod, step.site, handler))
        const [exp, gotUser, gotStr] = outs
        if (!exp.threw || !Array.isArray(exp.stack)) { continue }
        if (gotUser.handlerThrew || gotStr.handlerThrew) { problems.push({ step: i, kind: 'prepare-threw', detail: gotUser.handlerThrew || gotStr.handlerThrew }); continue }
        if (!gotUser.threw || !gotStr.threw) { problems.push({ step: i, kind: 'rewritten-did-not-throw', site: step.site }); continue }
        const E = exp.stack
        // structured path
        if (userFrames.length !== E.length) { problems.push({ step: i, kind: 'frame-count', mode: 'user', expected: E.length, got: userFrames.length }); continue }
        for (let k = 0; k < E.length; k++) {
          const e = E[k]; const g = userFrames[k]
          if (e.file === step.file) {
            const want = expectFor(cur.step, e.line)
            notes.framesChecked++
            if (!accept(want, g.file, g.line)) {
              problems.push({ step: i, kind: wrongKind(cur), mode: 'user', site: step.site, frame: k, fn: e.fn, expected: want, got: { file: g.file, line: g.line }, rawRewritten: g.raw })
              break
            }
            // the wrapped call site rendered as text (what a handler printing `String(callSite)` shows): reported last,
            // only when the history has no other problem
            const alts = want.alts || [{ path: want.path }]
            const lines = []
            for (let l = want.lo; l <= want.hi; l++) lines.push(l)
            for (const a of alts) if (a.line !== undefined) lines.push(a.line)
            if (typeof g.str === 'string' && !alts.some(a => lines.some(l => g.str.includes(a.path + ':' + l + ':')))) {
              late.push({ step: i, kind: 'callsite-tostring-untranslated', mode: 'user', site: step.site, frame: k, expectedPath: want.path, got: g.str })
            }
          } else if (e.isEval) {
            // eval code: the frame says where eval was called (`eval at fn (file:line:column)`), a position inside the
            // rewritten file like any other; a handler reads it through getEvalOrigin() or String(callSite)
            const m = /\((.*):(\d+):(\d+)\)/.exec(e.evalOrigin || '')
            if (m && m[1] === step.file) {
              const want = expectFor(cur.step, +m[2])
              const innermost = (text) => { const mm = /\(([^()]*):(\d+):(\d+)\)/.exec(String(text)); return mm ? { file: mm[1], line: +mm[2] } : null }
              const got = innermost(g.evalOrigin)
              if (!got || !accept(want, got.file, got.line)) {
                problems.push({ step: i, kind: 'wrong-location', mode: 'user-eval-origin', site: step.site, frame: k, expected: want, got: g.evalOrigin })
                break
              }
              const gotStr = innermost(g.str)
              if (!gotStr || !accept(want, gotStr.file, gotStr.line)) {
                late.push({ step: i, kind: 'callsite-tostring-untranslated', mode: 'user-eval-origin', site: step.site, frame: k, expectedPath: want.path, got: g.str })
              }
            }
          } else {
            if (g.file !== e.file || g.line !== e.line || g.col !== e.col) { problems.push({ step: i, kind: 'foreign-frame-changed', mode: 'user', frame: k, expected: e, got: g }); break }
          }
        }
        if (apiProblems.length) late.push({ step: i, kind: 'callsite-api-incomplete', mode: 'user', site: step.site, detail: apiProblems[0] })
        // string path
        if (typeof gotStr.stack !== 'string') { problems.push({ step: i, kind: 'string-stack-not-string' }); continue }
        const S = parseStackString(gotStr.stack, E.length)
        if (S.length !== E.length) { problems.push({ step: i, kind: 'frame-count', mode: 'string', expected: E.length, got: S.length, stack: gotStr.stack.slice(0, 600) }); continue }
        for (let k = 0; k < E.length; k++) {
          const e = E[k]; const g = S[k]
          if (e.file === step.file) {
            const want = expectFor(cur.step, e.line)
            if (!accept(want, g.file, g.line)) {
              problems.push({ step: i, kind: wrongKind(cur), mode: 'string', site: step.site, frame: k, fn: e.fn, expected: want, got: { file: g.file, line: g.line, text: g.text } })
              break
            }
          } else if (e.isEval && g.evalAt) {
            notes.evalFrames++
            const m = /\((.*):(\d+):(\d+)\)/.exec(e.evalOrigin || '')
            if (m && m[1] === step.file) {
              const want = expectFor(cur.step, +m[2])
              if (!accept(want, g.evalAt.file, g.evalAt.line)) {
                problems.push({ step: i, kind: 'wrong-location', mode: 'string-eval', site: step.site, frame: k, expected: want, got: g.evalAt, text: g.text })
                break
              }
            }
          } else if (!e.isEval && e.file && g.file) {
            if (g.file !== e.file || g.line !== e.line || g.col !== e.col) { problems.push({ step: i, kind: 'foreign-frame-changed', mode: 'string', frame: k, expected: e, got: g }); break }
          }
        }
      } else if (step.op === 'lookup') {
        notes.lookups++
        let r
        try { r = p.getOriginalPathAndLineFromSourceMap(step.path, step.line, step.col) } catch (e) { problems.push({ step: i, kind: 'lookup-threw', detail: String(e && e.message) }); continue }
        if (step.expectIdentity) {
          if (!r || r.path !== step.path || r.line !== step.line) problems.push({ step: i, kind: 'lookup-not-identity', got: r, asked: step })
        }
      } else if (step.op === 'diskLookup') {
        // a rewritten file written to disk: line lookup through its inline map
        const cur = latest[step.file]
        if (!cur) continue
        notes.lookups++
        const dir = fs.mkdtempSync(path.join(os.tmpdir(), 'verif-c11-'))
        try {
          const fp = path.join(dir, path.basename(step.file))
          fs.writeFileSync(fp, cur.content)
          let r
          try { r = p.getOriginalPathAndLineFromSourceMap(fp, step.line, step.col) } catch (e) { problems.push({ step: i, kind: 'lookup-threw', detail: String(e && e.message) }); continue }
          if (!r || typeof r.line !== 'number') problems.push({ step: i, kind: 'lookup-bad-result', got: r })
        } finally { fs.rmSync(dir, { recursive: true, force: true }) }
      }
    } catch (e) {
      problems.push({ step: i, kind: 'harness', detail: String(e && e.stack).slice(0, 400) })
    }
  }
  if (!problems.length && late.length) problems.push(late[0])
  return { problems, notes }
}

async function pkgOp (req) {
  const p = loadPackage()
  if (req.op === 'echo') {
    table.set(req.file + '\0' + req.code, { ok: req.native })
    const out = {}
    for (const [k, C] of [['cache', p.Rewriter], ['nocache', p.NonCacheRewriter]]) {
      const inst = new C(req.config || {})
      const r = inst.rewrite(req.code, req.file)
      out[k] = { same: r.content === req.code, status: r.metrics && r.metrics.status, len: r.content.length }
      if (req.codeA && req.codeB) {
        // the native result for A and B is the same "not modified" answer
        table.set(req.file + '\0' + req.codeA, { ok: req.native })
        table.set(req.file + '\0' + req.codeB, { ok: req.native })
        const ra = inst.rewrite(req.codeA, req.file)
        const rb = inst.rewrite(req.codeB, req.file)
        out[k].sameSeq = ra.content === req.codeA && rb.content === req.codeB
      }
    }
    return out
  }
  if (req.op === 'passthrough') {
    // a modified result: the package hands the rewritten content on as it is (code and embedded map)
    table.set(req.file + '\0' + req.code, { ok: req.native })
    const out = {}
    for (const [k, C] of [['cache', p.Rewriter], ['nocache', p.NonCacheRewriter]]) {
      const inst = new C(req.config || {})
      const r = inst.rewrite(req.code, req.file)
      const again = inst.rewrite(req.code, req.file)
      out[k] = { same: r.content === req.native.content && again.content === req.native.content, status: r.metrics && r.metrics.status, len: r.content.length, expected: req.native.content.length, tail: String(r.content).slice(-80) }
    }
    return out
  }
  if (req.op === 'metricsfile') {
    // the same text under the same base name in two directories (a package installed twice): every response names the file
    // of ITS call
    const path2 = require('path')
    const file2 = path2.join(path2.dirname(req.file), 'node_modules', 'copy', path2.basename(req.file))
    const native2 = JSON.parse(JSON.stringify(req.native))
    if (native2.metrics) native2.metrics.file = file2
    if (native2.literalsResult) native2.literalsResult.file = file2
    table.set(req.file + '\0' + req.code, { ok: req.native })
    table.set(file2 + '\0' + req.code, { ok: native2 })
    const out = {}
    for (const [k, C] of [['cache', p.Rewriter], ['nocache', p.NonCacheRewriter]]) {
      const inst = new C(req.config || {})
      const r1 = inst.rewrite(req.code, req.file)
      const r2 = inst.rewrite(req.code, file2)
      const r3 = inst.rewrite(req.code, req.file)
      const f = (r) => r && r.metrics && r.metrics.file
      out[k] = { ok: f(r1) === req.file && f(r2) === file2 && f(r3) === req.file && (!r2.literalsResult || r2.literalsResult.file === file2), files: [f(r1), f(r2), f(r3)], asked: [req.file, file2, req.file] }
    }
    return out
  }
  return { error: 'unknown package op' }
}

module.exports = { run, pkg: pkgOp }
