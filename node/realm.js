'use strict'
// The observable world of the differential oracle: every free variable of a generated program is
// bound to a value whose every interaction is logged. A realm is a pure function of its seed and of
// the sequence of interactions, so the original and the rewritten program see the same world as
// long as they behave the same.
const vm = require('vm')

function mulberry (seed) {
  let a = seed >>> 0
  return () => {
    a |= 0; a = a + 0x6D2B79F5 | 0
    let t = Math.imul(a ^ a >>> 15, 1 | a)
    t = t + Math.imul(t ^ t >>> 7, 61 | t) ^ t
    return ((t ^ t >>> 14) >>> 0) / 4294967296
  }
}

const ARGS_KEY = Symbol.for('verif.args')

function makeRealm (seed, opts) {
  const hookNames = opts.hooks || []
  const recording = !!opts.recording
  const bareNames = opts.bare || []
  const rnd = mulberry(seed)
  const log = []          // compared exactly
  const side = []         // string-hint coercions: compared as multiset (subset when the run throws)
  const hookLog = []      // hook invocations (recording mode), never compared with the original run
  const hookErrors = []   // C03: result/operand mismatches detected inside hooks
  let nextId = 1
  let quiet = 0
  let events = 0
  const overflow = { hit: false }
  const ids = new WeakMap()
  const lastCall = new WeakMap()
  const reg = (o, kind) => { ids.set(o, kind + '#' + (nextId++)); return o }

  const ser = (v, d = 0) => {
    switch (typeof v) {
      // long strings (programs that double a string in a loop reach hundreds of megabytes) are
      // abbreviated: length + both ends, so that logging stays cheap and the logs stay small
      case 'string': return v.length <= 256 ? JSON.stringify(v) : JSON.stringify(v.slice(0, 48)) + '…' + JSON.stringify(v.slice(-48)) + '(len=' + v.length + ')'
      case 'number': return Object.is(v, -0) ? '-0' : String(v)
      case 'bigint': return v + 'n'
      case 'undefined': return 'undefined'
      case 'boolean': return String(v)
      case 'symbol': return 'Symbol(' + String(v.description) + ')'
      case 'function': return ids.has(v) ? ids.get(v) : 'fn'
      default:
        if (v === null) return 'null'
        if (ids.has(v)) return ids.get(v)
        if (d > 3) return '…'
        quiet++
        try {
          if (Array.isArray(v)) return '[' + Array.prototype.map.call(v, x => ser(x, d + 1)).join(',') + ']'
          if (v instanceof Error || (v && typeof v.message === 'string' && typeof v.stack === 'string')) return 'Error<' + (v.constructor && v.constructor.name) + '>'
          const own = (k) => { const pd = Object.getOwnPropertyDescriptor(v, k); return pd && !('value' in pd) }
          if (!own('then') && typeof v.then === 'function') return 'promise'
          if (!own('next') && typeof v.next === 'function') return 'iterator'
          // data properties only: serialising must never run program code (accessors of program objects)
          return '{' + Object.keys(v).map(k => { const pd = Object.getOwnPropertyDescriptor(v, k); return k + ':' + (pd && 'value' in pd ? ser(pd.value, d + 1) : 'accessor') }).join(',') + '}'
        } catch (e) { return '{?}' } finally { quiet-- }
    }
  }
  const ev = (...parts) => {
    if (quiet) return
    if (++events > 3000) { overflow.hit = true; throw new RangeError('realm event budget exceeded') }
    log.push(parts.join(' '))
  }
  const sideEv = (s) => { if (!quiet) side.push(s) }

  const strings = ['abc', '', 'héllo wörld', '  padded  ', 'x'.repeat(12), '0', 'tainted<script>']
  function value (depth = 0) {
    const r = rnd()
    if (r < 0.30) return strings[Math.floor(rnd() * strings.length)]
    if (r < 0.40) return Math.floor(rnd() * 7) - 2
    if (r < 0.43) return null
    if (r < 0.46) return undefined
    if (r < 0.48) return rnd() < 0.5
    if (r < 0.50) return 10n
    // no Symbol values: their string coercion throws, and the property explicitly tolerates that such a
    // coercion (of a template substitution) happens after later substitutions have been evaluated
    if (r < 0.52) return -0
    if (r < 0.58) return ['a', 'b', value(depth + 1)]
    if (r < 0.62) return { p: value(depth + 1), q: 'plain' }
    if (r < 0.66) return iter(depth)
    if (r < 0.76 && depth < 3) return fn(depth)
    if (r < 0.82) return prim(depth)
    if (depth < 3) return obs(depth)
    return 'leaf'
  }
  function fn (depth, name) {
    const throws = rnd() < 0.08
    const cb = rnd() < 0.4
    const ret = value(depth + 1)
    const errKind = Math.floor(rnd() * 3)
    const f = function (...args) {
      ev('call', ids.get(f), 'this=' + ser(this), 'args=' + args.map(a => ser(a)).join('|'))
      let result
      if (cb) {
        for (const a of args) {
          if (typeof a === 'function' && !ids.has(a)) {
            try { const r = a('cbarg', 1); ev('cb-ret', ser(r)) } catch (e) { ev('cb-threw', e && e.constructor ? e.constructor.name : ser(e)) }
          }
        }
      }
      if (throws) { const E = [TypeError, RangeError, Error][errKind]; throw new E('realm') }
      result = (typeof args[0] === 'number') ? 'r' + args[0] : (typeof args[0] === 'string' && args[0].length < 20 ? ret : ret)
      lastCall.set(f, { thisArg: this, args, ret: result })
      return result
    }
    reg(f, name || 'fn')
    Object.defineProperty(f, 'toString', { value: () => ids.get(f), enumerable: false })
    return f
  }
  function iter (depth) { // iterable whose every expansion is logged
    const items = [value(depth + 1), 'it']
    const o = { [Symbol.iterator] () { ev('iterate', ids.get(o)); return items[Symbol.iterator]() } }
    reg(o, 'iter')
    return o
  }
  function prim (depth) { // object with logged coercions; coercions are pure (constant results)
    const s = strings[Math.floor(rnd() * strings.length)]
    const n = Math.floor(rnd() * 5)
    const o = {
      valueOf () { ev('valueOf', ids.get(o)); return n },
      toString () { sideEv('toString ' + ids.get(o)); return s }
    }
    reg(o, 'prim')
    return o
  }
  function obs (depth) {
    const store = new Map()
    const target = function () {}
    const p = new Proxy(target, {
      get (t, k) {
        if (k === Symbol.toPrimitive) {
          return (hint) => {
            if (hint === 'string') sideEv('toPrim string ' + ids.get(p)); else ev('toPrim', hint, ids.get(p))
            return 'P' + ids.get(p)
          }
        }
        // `stack` is touched by Node itself when a thrown value leaves vm.runInContext (not by the program)
        if (typeof k === 'symbol' || k === 'toString' || k === 'valueOf' || k === 'then' || k === 'toJSON' || k === 'stack') return undefined
        if (k === 'call' || k === 'apply' || k === 'bind') return Function.prototype[k]
        if (k === 'prototype') return target.prototype
        if (!store.has(k)) store.set(k, value(depth + 1))
        ev('get', ids.get(p), String(k))
        return store.get(k)
      },
      set (t, k, v) { if (k === 'stack') return true; ev('set', ids.get(p), String(k), ser(v)); store.set(k, v); return true },
      has (t, k) { ev('has', ids.get(p), String(k)); return store.has(k) },
      deleteProperty (t, k) { ev('delete', ids.get(p), String(k)); store.delete(k); return true },
      apply (t, th, args) {
        ev('apply', ids.get(p), 'this=' + ser(th), 'args=' + args.map(a => ser(a)).join('|'))
        const r = value(depth + 1)
        lastCall.set(p, { thisArg: th, args, ret: r })
        return r
      },
      construct (t, args) { ev('construct', ids.get(p), args.map(a => ser(a)).join('|')); return obs(depth + 1) }
    })
    reg(p, 'obs')
    return p
  }

  // ---- hooks
  let RegExpOfContext = RegExp
  const ctxRegExp = () => RegExpOfContext
  const dd = {}
  const same = (a, b) => Object.is(a, b) || (typeof a === 'object' && a !== null && typeof b === 'object' && b !== null && ser(a) === ser(b))
  // values whose use by a native method cannot call back into the realm (no callables, no proxies)
  const inert = (v, d = 0) => {
    if (v === null || (typeof v !== 'object' && typeof v !== 'function')) return true
    if (typeof v === 'function') return false
    if (ids.has(v)) return ids.get(v).startsWith('prim')
    if (Array.isArray(v)) return d < 3 && v.every(x => inert(x, d + 1))
    return false
  }
  function verifyHook (name, res, ops) {
    quiet++
    try {
      const kind = opts.hookKinds && opts.hookKinds[name]
      if (kind === 'plus') {
        if (ops.length !== 2) return 'plus hook ' + name + ' received ' + ops.length + ' operands'
        let expect
        try { expect = ops[0] + ops[1] } catch (e) { if (e instanceof RangeError) return null; return 'plus hook ' + name + ': operands cannot be added (' + e.constructor.name + ') but a result was produced' }
        if (!Object.is(res, expect)) return 'plus hook ' + name + ': result ' + ser(res) + ' is not left + right = ' + ser(expect) + ' for operands ' + ops.map(o => ser(o)).join(' , ')
      } else if (kind === 'tpl') {
        if (typeof res !== 'string') return 'template hook ' + name + ': result is not a string'
        let pos = 0
        for (const op of ops) {
          let s
          try { s = `${op}` } catch (e) { return 'template hook ' + name + ': operand cannot be converted to string' }
          const i = res.indexOf(s, pos)
          if (i < 0) return 'template hook ' + name + ': operand ' + JSON.stringify(s) + ' does not occur (in order) in the result ' + JSON.stringify(res)
          pos = i + s.length
        }
      } else {
        // method: (result, fn, this, ...args)
        if (ops.length < 2) return 'method hook ' + name + ' received ' + ops.length + ' operands'
        const [f, thisArg, ...args] = ops
        if (typeof f !== 'function') return 'method hook ' + name + ': second argument is not the invoked function: ' + ser(f)
        const rec = lastCall.get(f)
        if (ids.has(f)) {
          if (!rec) return 'method hook ' + name + ': ' + ser(f) + ' was never invoked'
          if (!Object.is(rec.thisArg, thisArg)) return 'method hook ' + name + ': receiver ' + ser(thisArg) + ' is not the receiver of the invocation ' + ser(rec.thisArg)
          if (rec.args.length === args.length && rec.args.every((a, i) => Object.is(a, args[i]) || (a instanceof ctxRegExp() && args[i] instanceof ctxRegExp() && String(a) === String(args[i]))) && rec.args.some((a, i) => !Object.is(a, args[i]))) return 'regex-literal-identity: method hook ' + name + ': a regular expression literal argument was evaluated a second time for the hook (distinct RegExp object)'
          if (rec.args.length !== args.length || rec.args.some((a, i) => !Object.is(a, args[i]))) return 'method hook ' + name + ': arguments [' + args.map(a => ser(a)) + '] are not those of the invocation [' + rec.args.map(a => ser(a)) + ']'
          if (!Object.is(rec.ret, res)) return 'method hook ' + name + ': result ' + ser(res) + ' is not what the invocation returned ' + ser(rec.ret)
        } else if ((typeof thisArg === 'string' || Array.isArray(thisArg)) && opts.nativeNames && opts.nativeNames.includes(f.name) && inert(thisArg) && args.every(a => inert(a))) {
          let expect
          try { expect = f.apply(thisArg, args) } catch (e) { return null }
          if (!same(expect, res)) return 'method hook ' + name + ': result ' + ser(res) + ' differs from ' + f.name + ' applied to the passed receiver and arguments = ' + ser(expect)
        }
      }
      return null
    } catch (e) {
      return null
    } finally { quiet-- }
  }
  for (const n of hookNames) {
    dd[n] = recording
      ? function (res, ...ops) {
          hookLog.push(n + '(' + ser(res) + ';' + ops.map(o => ser(o)).join(',') + ')')
          const err = verifyHook(n, res, ops)
          if (err) hookErrors.push(err)
          return res
        }
      : (res) => res
  }

  const args = [value(), value(), value(), value(), value()]
  const K = function K (...a) { ev('construct K', a.map(x => ser(x)).join('|')); this.p = a[0] }
  reg(K, 'K')
  // a class of the program that extends K inherits its static side from K, i.e. from the host realm's Function.prototype:
  // its source text (which differs between the two runs) must not be observable through string coercion
  Object.defineProperty(K, 'toString', { value: function toString () { return 'function () { [code] }' }, enumerable: false })
  const globals = { g: value(), h: fn(0, 'h'), o: obs(0), s: 'global string', K, console: undefined }
  // (`eval` stays the context's own: the prologue and direct-eval statements of the programs use it)
  for (const b of bareNames) if (b !== 'eval') globals[b] = fn(0, 'bare-' + b)
  if (!opts.noHooks) globals._ddiast = dd
  return { log, side, hookLog, hookErrors, args, globals, ser, ids, reg, overflow, setRegExp: (r) => { RegExpOfContext = r } }
}

function prepareContext (realm) {
  const ctx = vm.createContext(realm.globals)
  // function source text is not part of the compared behaviour (the rewriter changes it by design)
  vm.runInContext("Function.prototype.toString = function toString () { return 'function () { [code] }' }; Object.defineProperty(Function.prototype.toString, 'name', { value: 'toString' })", ctx)
  const g = vm.runInContext('globalThis', ctx)
  realm.ids.set(g, 'global')
  realm.setRegExp(vm.runInContext('RegExp', ctx))
  return ctx
}

async function drive (ctx, realm, code, opts) {
  const timeout = opts.timeout || 2000
  let outcome
  const errName = (e) => {
    if (e && (typeof e === 'object' || typeof e === 'function') && realm.ids.has(e)) return 'throw ' + realm.ids.get(e)
    if (e && (typeof e === 'object' || typeof e === 'function')) {
      let n
      try { n = e.constructor && e.constructor.name } catch (_) {}
      const isErr = (() => { try { return typeof e.message === 'string' && typeof e.stack === 'string' } catch (_) { return false } })()
      if (isErr) {
        if (n === 'RangeError' && /call stack|event budget/.test(e.message)) return 'harness: ' + e.message
        if (e.code === 'ERR_SCRIPT_EXECUTION_TIMEOUT') return 'harness: timeout'
        return 'throw ' + n
      }
    }
    return 'throw value ' + realm.ser(e)
  }
  try {
    let f
    if (opts.module) {
      const mod = new vm.SourceTextModule(code, { context: ctx, identifier: opts.file || 'm.mjs' })
      await mod.link(() => { throw new Error('no imports expected') })
      await mod.evaluate({ timeout })
      f = mod.namespace.f
    } else {
      vm.runInContext(code, ctx, { timeout, filename: opts.file || 'p.js' })
      f = vm.runInContext('typeof f === "function" ? f : undefined', ctx)
    }
    if (typeof f !== 'function') return { outcome: 'harness: no entry function' }
    const g = vm.runInContext('globalThis', ctx)
    // the call is made (and a synchronous exception caught) inside the context: an exception that leaves
    // vm.runInContext gets its `stack` decorated by Node, which would be an observable interaction
    const box = { f, args: realm.args, threw: false, ret: undefined, err: undefined }
    Object.defineProperty(g, ARGS_KEY, { value: box, enumerable: false, configurable: true })
    vm.runInContext('(() => { const box = globalThis[Symbol.for("verif.args")]; try { box.ret = box.f(...box.args) } catch (e) { box.threw = true; box.err = e } })()', ctx, { timeout })
    if (box.threw) throw box.err
    let r = box.ret
    if (opts.entry === 'Async' || (r && typeof r.then === 'function' && !realm.ids.has(r))) {
      let timer
      const to = new Promise((resolve, reject) => { timer = setTimeout(() => reject(Object.assign(new Error('await timeout'), { code: 'ERR_SCRIPT_EXECUTION_TIMEOUT' })), timeout) })
      try { r = await Promise.race([r, to]) } finally { clearTimeout(timer) }
    } else if (opts.entry === 'Generator' && r && typeof r.next === 'function') {
      const ys = []
      let n = 0
      let sent = 0
      while (true) {
        const step = r.next('sent' + (sent++))
        if (step.done) { ys.push('ret:' + realm.ser(step.value)); break }
        ys.push(realm.ser(step.value))
        if (++n > 30) { ys.push('…'); break }
      }
      r = ys
    }
    outcome = 'return ' + realm.ser(r)
  } catch (e) {
    outcome = errName(e)
  }
  return { outcome }
}

async function runOne (code, seed, opts) {
  const realm = makeRealm(seed, opts)
  const ctx = prepareContext(realm)
  const { outcome } = await drive(ctx, realm, code, opts)
  // floating promises (async functions that were started but not awaited) run to completion in
  // microtasks: drain them so that the snapshot of the log does not depend on timing
  await new Promise(resolve => setImmediate(resolve))
  await new Promise(resolve => setImmediate(resolve))
  return { outcome: realm.overflow.hit ? 'harness: realm event budget exceeded' : outcome, log: realm.log, side: realm.side.slice().sort(), hookLog: realm.hookLog, hookErrors: realm.hookErrors }
}

function compare (a, b) {
  if (a.outcome.startsWith('harness') || b.outcome.startsWith('harness')) return { verdict: 'inconclusive', why: a.outcome + ' / ' + b.outcome }
  if (a.outcome !== b.outcome) return { verdict: 'differ', cls: 'outcome', why: 'outcome: original ' + a.outcome + ' | rewritten ' + b.outcome }
  const n = Math.max(a.log.length, b.log.length)
  for (let i = 0; i < n; i++) {
    if (a.log[i] !== b.log[i]) {
      // both throw the same class, the rewritten run performs extra effects first: the exception point moved
      const cls = (a.outcome.startsWith('throw') && i === a.log.length) ? 'late-throw' : (a.outcome.startsWith('throw') && i === b.log.length) ? 'early-throw' : 'effects'
      return { verdict: 'differ', cls, why: 'effect #' + i + ': original ' + a.log[i] + ' | rewritten ' + b.log[i] }
    }
  }
  // String-hint coercions (template substitutions): the rewritten program coerces after all substitutions
  // have been evaluated, so an exception raised by a later substitution (even one the program catches)
  // pre-empts them: the rewritten coercions must be a sub-multiset of the original ones.
  const pool = a.side.slice()
  for (const s of b.side) {
    const i = pool.indexOf(s)
    if (i < 0) return { verdict: 'differ', cls: 'coercion', why: 'string coercion not present in the original run: ' + s }
    pool.splice(i, 1)
  }
  return { verdict: 'equal', sideEqual: pool.length === 0 }
}

module.exports = { makeRealm, prepareContext, drive, runOne, compare, ARGS_KEY }
