'use strict'
// Persistent oracle process: one JSON request per line on stdin, one JSON response per line on stdout.
const vm = require('vm')
const readline = require('readline')
const { runOne, compare, makeRealm, prepareContext } = require('./realm')

function compileCheck (code, isModule) {
  try {
    if (isModule) {
      // eslint-disable-next-line no-new
      new vm.SourceTextModule(code, { identifier: 'check.mjs' })
    } else {
      // the way Node loads CommonJS files: function wrapper (accepts top level return)
      const src = code.startsWith('#!') ? '//' + code : code
      vm.compileFunction(src, ['exports', 'require', 'module', '__filename', '__dirname'])
    }
    return { ok: true }
  } catch (e) {
    return { ok: false, error: String(e && e.message).slice(0, 200) }
  }
}

async function handle (req) {
  switch (req.cmd) {
    case 'ping': return { ok: true }
    case 'diff': {
      // differential execution of original and rewritten program in identical realms
      const seeds = req.seeds || [1]
      const out = { runs: 0, hookCalls: 0, events: 0, results: [] }
      for (const seed of seeds) {
        const opts = { hooks: req.hooks, hookKinds: req.hookKinds, bare: req.bare, nativeNames: req.nativeNames, entry: req.entry, module: req.module, timeout: req.timeout || 2000, file: req.file }
        const a = await runOne(req.orig, seed, { ...opts, recording: false })
        const b = await runOne(req.rewritten, seed, { ...opts, recording: true })
        const c = compare(a, b)
        out.runs++
        out.hookCalls += b.hookLog.length
        out.events += a.log.length
        const r = { seed, verdict: c.verdict, cls: c.cls, why: c.why, hookErrors: b.hookErrors.slice(0, 3), outcome: a.outcome, events: a.log.length, hookCalls: b.hookLog.length }
        if (c.verdict === 'differ' || b.hookErrors.length) {
          r.a = { outcome: a.outcome, log: a.log.slice(0, 60), side: a.side.slice(0, 30) }
          r.b = { outcome: b.outcome, log: b.log.slice(0, 60), side: b.side.slice(0, 30), hooks: b.hookLog.slice(0, 30) }
          out.results.push(r)
          break
        }
        out.results.push(r)
      }
      return out
    }
    case 'compile': return compileCheck(req.code, !!req.module)
    case 'compileBatch': return { results: req.items.map(it => compileCheck(it.code, !!it.module)) }
    case 'prologue': return require('./prologue').run(req)
    case 'stack': return require('./stacktrace').run(req)
    case 'package': return require('./stacktrace').pkg(req)
    default: return { error: 'unknown cmd ' + req.cmd }
  }
}

const rl = readline.createInterface({ input: process.stdin, terminal: false })
const queue = []
let busy = false
async function pump () {
  if (busy) return
  busy = true
  while (queue.length) {
    const line = queue.shift()
    let resp
    try {
      resp = await handle(JSON.parse(line))
    } catch (e) {
      resp = { error: 'worker exception: ' + (e && e.stack ? e.stack : String(e)).slice(0, 500) }
    }
    process.stdout.write(JSON.stringify(resp) + '\n')
  }
  busy = false
}
rl.on('line', (line) => { if (line.trim()) { queue.push(line); pump() } })
rl.on('close', () => { const t = setInterval(() => { if (!busy && !queue.length) { clearInterval(t); process.exit(0) } }, 5) })
process.on('unhandledRejection', () => {})
