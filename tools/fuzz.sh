#!/bin/bash
# tools/fuzz.sh build                      -> builds the libFuzzer targets (stable toolchain, sancov flags)
# tools/fuzz.sh run <target> <seconds> [props]  -> runs a campaign; exit 1 + VIOLATION line if a target aborts on a property failure
set -u
ROOT="${VERIF_ROOT:-/verif}"
cd "$ROOT/harness" || exit 2
export CARGO_NET_OFFLINE=true
FLAGS="--cfg datadog_dd_native_iast_rewriter_js_verif --cfg fuzzing -Cpasses=sancov-module -Cllvm-args=-sanitizer-coverage-level=4 -Cllvm-args=-sanitizer-coverage-inline-8bit-counters -Cllvm-args=-sanitizer-coverage-pc-table -Cllvm-args=-sanitizer-coverage-trace-compares"
build() {
  RUSTFLAGS="$FLAGS" cargo build --release --offline -p verif-fuzz --target x86_64-unknown-linux-gnu --target-dir target-fuzz 2>&1 | tail -3
}
case "${1:-}" in
  build) build ;;
  run)
    target="$2"; secs="$3"; props="${4:-}"
    build >/dev/null || { echo "INCONCLUSIVE: fuzz build failed"; exit 2; }
    [ -x target-fuzz/x86_64-unknown-linux-gnu/release/$target ] || { echo "INCONCLUSIVE: fuzz build failed"; exit 2; }
    work="$ROOT/fuzz-work/$target${props:+-$props}"; mkdir -p "$work/corpus" "$work/artifacts"
    # seed corpus: a few tapes / texts so that libFuzzer does not start from length 0
    if [ -z "$(ls -A $work/corpus)" ]; then
      if [ "$target" = fz_text ]; then
        i=0; for f in $ROOT/corpus/real/*.js; do i=$((i+1)); [ $i -gt 40 ] && break; (printf '\000\000\000\000'; head -c 6000 "$f") > "$work/corpus/seed$i"; done
      else
        for i in $(seq 1 64); do head -c $((200 + i * 12)) /dev/urandom > "$work/corpus/seed$i"; done
      fi
    fi
    found="${VERIF_FOUND_DIR:-$ROOT/replays/found}"
    VERIF_FUZZ_PROPS="$props" VERIF_FOUND_DIR="$found" ./target-fuzz/x86_64-unknown-linux-gnu/release/$target -fork=${VERIF_THREADS:-16} -ignore_crashes=0 -max_total_time="$secs" -len_control=0 -max_len=1200 -rss_limit_mb=4096 -artifact_prefix="$work/artifacts/" "$work/corpus" > "$work/log.txt" 2>&1
    rc=$?
    grep -h "FUZZ-VIOLATION" "$work/log.txt" | sort -u | sed 's/^.*FUZZ-VIOLATION/VIOLATION/' | head -5
    execs=$(grep -Eo "#[0-9]+: cov" "$work/log.txt" | tail -1)
    echo "fuzz $target ${props}: ${secs}s, last status ${execs:-n/a}, exit $rc"
    if grep -q "FUZZ-VIOLATION" "$work/log.txt"; then exit 1; fi
    if [ $rc -ne 0 ]; then echo "INCONCLUSIVE: libFuzzer exited with $rc without a property failure (see $work/log.txt)"; exit 2; fi
    exit 0 ;;
  *) echo "usage: fuzz.sh build | run <target> <seconds> [props]"; exit 2 ;;
esac
