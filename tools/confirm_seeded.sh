#!/bin/bash
# confirm one seeded change in a scratch worktree at the CURRENT /repo HEAD:
#  (a) patch applies, compiles, existing suite green; (b) demo fails with it; (c) demo passes without it
p=$1; k=$2
src=${SEED_ROOT:-/tmp/seeded}/$p/$k
wt=/tmp/cf-$p-$k
out=$src/confirm.txt
rm -rf $wt; git -C /repo worktree add -q --detach $wt HEAD || exit 1
cp -r /repo/target $wt/target 2>/dev/null
cd $wt
{
echo "== $p/$k at $(git -C /repo log --format=%h -1)"
if ! git apply $src/patch.diff 2>/dev/null; then patch -p1 -F3 -s --no-backup-if-mismatch < $src/patch.diff || { echo "PATCH-FAILED"; exit; }; fi
git diff > $src/patch.current.diff
echo "-- suite with change:"; cargo test --offline 2>&1 | grep -E "^test result|error\[" | head -3
# add the demo
jsdemo=$(ls $src/demo.js 2>/dev/null)
if [ -n "$jsdemo" ]; then
  echo "-- js demo with change:"; (cd $src && PKG_ROOT=$wt REWRITER_ROOT=$wt VERIF_WT=$wt node demo.js $wt 2>&1 | tail -3)
  git checkout -- . 
  echo "-- js demo without change:"; (cd $src && PKG_ROOT=$wt REWRITER_ROOT=$wt VERIF_WT=$wt node demo.js $wt 2>&1 | tail -3)
else
  if [ -f $src/demo.diff ]; then git apply $src/demo.diff 2>/dev/null || patch -p1 -F3 -s --no-backup-if-mismatch < $src/demo.diff
    # (a demo.diff that only registers the module: the test file lies next to it)
    for f in $src/*test*.rs; do [ -f "$f" ] && [ ! -f src/tests/$(basename $f) ] && cp $f src/tests/; done
  else
    for f in $src/*test*.rs; do cp $f src/tests/; done
    for d in $src/*registration*.diff $src/*mod_rs*.diff $src/mod_*.diff; do [ -f $d ] && (git apply $d 2>/dev/null || patch -p1 -F3 -s --no-backup-if-mismatch < $d); done
  fi
  echo "-- demo with change:"; cargo test --offline seeded 2>&1 | grep -E "^test result|error\[|^error:|panicked at" | head -6
  # remove only the change, keep the demo
  git apply -R $src/patch.current.diff 2>/dev/null || patch -p1 -R -F3 -s --no-backup-if-mismatch < $src/patch.current.diff
  echo "-- demo without change:"; cargo test --offline seeded 2>&1 | grep -E "^test result|error\[|^error:|panicked at" | head -6
fi
} > $out 2>&1
cd /; git -C /repo worktree remove --force $wt
