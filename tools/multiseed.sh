#!/bin/bash
# tools/multiseed.sh <tier> <seed>... : every check with several PRNG seeds; evidence/replays go to ./out (never /verif/evidence)
tier="$1"; shift
here="$(cd "$(dirname "$0")/.." && pwd)"
mkdir -p "$here/out"
for s in "$@"; do
  for id in C01 C02 C03 C04 C05 C06 C07 C08 C09 C10 C11 C12 C13 C14 C15 C16; do
    VERIF_SEED=$s VERIF_EVIDENCE_DIR="$here/out/ev-$tier-$s" VERIF_FOUND_DIR="$here/out/found" "$here/run" $id $tier > "$here/out/log-$tier-$s-$id.txt" 2>&1
    echo "seed=$s $id rc=$? $(grep -E "$tier:" "$here/out/log-$tier-$s-$id.txt" | tail -1)"
    grep -E "^VIOLATION|signature:|INCONCLUSIVE" "$here/out/log-$tier-$s-$id.txt" | head -4
  done
done
