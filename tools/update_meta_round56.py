#!/usr/bin/env python3
"""Completes meta.json of the seeded changes of rounds 5 and 6 from the confirmation transcripts and the sweep tables."""
import json, re, glob, os
root = '/verif/seeded'
def table(path):
    res = {}
    if not os.path.exists(path): return res
    for l in open(path):
        m = re.match(r'(C\d+/\d+) (C\d+) violations=(\d+) watchdog=(\d+) sig=(\S+)', l)
        if m: res.setdefault(m.group(1), []).append({"check": m.group(2), "violations": int(m.group(3)), "watchdog": int(m.group(4)), "signature": m.group(5)})
    return res
first = {}
first.update(table(f'{root}/catch_table_round5_firstpass.txt'))
first.update({k: v for k, v in table(f'{root}/catch_table_round6_firstpass.txt').items() if int(k.split('/')[1]) >= 11 and not (k.startswith('C08/') and int(k.split('/')[1]) == 11)})
# the two late C08 changes of round 5 had their first pass in the second sweep (nothing had been strengthened for them yet)
for k, v in table(f'{root}/catch_table_round5_second.txt').items():
    if k in ('C08/10', 'C08/11'): first[k] = v
final = table(f'{root}/catch_table_round56_final.txt')
cross = {  # runs of tools/try_mutant.sh recorded by hand (checks of other properties)
 'C08/10': [('C09', 'trailer-missing'), ('C11', 'wrong-location'), ('C12', 'modified-without-trailer')],
 'C08/11': [('C12', 'package-modified-content-altered')],
 'C12/9': [('C05', 'C05:unfolded-without-hook'), ('C02', 'unfolded-without-hook')],
 'C08/12': [('C16', 'history-dependent')],
 'C08/13': [('C10', 'program-text-altered')],
 'C10/12': [('C10', 'plain-map-expected'), ('C09', 'map-sources')],
 'C05/12': [('C05', 'default-verbosity'), ('C15', 'debug-present')],
 'C03/12': [('C03', 'hook-args'), ('C05', 'C05:not-enabled:call')],
 'C11/9': [('C11', 'wrong-location'), ('C09', 'identifier-position')],
}
for d in sorted(glob.glob(f'{root}/C*/[0-9]*')):
    p, k = d.split('/')[-2], int(d.split('/')[-1])
    rnd = None
    if p == 'C08':
        rnd = 5 if k in (10, 11) else 6 if k in (12, 13) else None
    else:
        rnd = 5 if k in (9, 10) else 6 if k in (11, 12) else None
    if rnd is None: continue
    mp = f'{d}/meta.json'
    m = json.load(open(mp))
    key = f'{p}/{k}'
    m['property'] = p
    m['round'] = rnd
    m['origin'] = ('independent sub-agent given only the property text, one-line summaries of the earlier changes for that property'
                   + (' and a focus area' if rnd == 6 else '') + ' and a private scratch worktree (nothing from /verif)')
    c = open(f'{d}/confirm.txt').read() if os.path.exists(f'{d}/confirm.txt') else ''
    results = re.findall(r'test result: (ok|FAILED)', c)
    js = 'js demo' in c
    m['confirmed_by_me'] = {
        'how': 'scratch git worktree of /repo at the HEAD named in confirm.txt (removed afterwards): patch applied -> `cargo test --offline` (existing suite); demonstration added -> run with the change, then with the change reverted',
        'transcript': 'confirm.txt',
        'suite_green_with_change': bool(results and results[0] == 'ok'),
        'demo_fails_with_change': ((lambda seg: bool(seg.strip()) and 'OK:' not in seg and ' holds' not in seg)(c.split('js demo with change:')[1].split('-- js demo without change:')[0]) if js else (len(results) > 1 and results[1] == 'FAILED') or 'panicked' in c or '::{{closure}}' in c),
        'demo_passes_without_change': (('OK' in c or 'holds' in c or 'ok ' in c) if js else (len(results) > 0 and results[-1] == 'ok')),
    }
    if os.path.exists(f'{d}/patch.original.diff'):
        m['rebased'] = 'patch.diff is the change rebased by hand onto the current repository head (a later repair touched the same lines); the sub-agent\'s diff is patch.original.diff'
    m['checks_run'] = 'tools/try_mutant.sh <patch> <id> = git apply on the repository, ./run <id> quick, git checkout -- . (tools/mutant_sweep.sh for the tables)'
    fp = [x for x in first.get(key, []) if x['check'] == p]
    if fp:
        m['first_pass_own_property'] = {'check': p, 'violations': fp[0]['violations'], 'signature': fp[0]['signature'], 'watchdog': fp[0]['watchdog']}
        m['missed_before_strengthening'] = fp[0]['violations'] == 0 and fp[0]['watchdog'] == 0
    caught = [{'check': x['check'], 'violations': x['violations'], 'signature': x['signature']} for x in final.get(key, []) if x['violations'] > 0]
    for chk, sig in cross.get(key, []):
        if not any(x['check'] == chk for x in caught):
            caught.append({'check': chk, 'violations': 1, 'signature': sig, 'source': 'tools/try_mutant.sh run'})
    if not caught and fp and fp[0]['violations'] > 0:
        caught = [{'check': p, 'violations': fp[0]['violations'], 'signature': fp[0]['signature'], 'source': 'first pass'}]
    m['caught_by'] = caught
    m['not_caught_by'] = [x['check'] for x in final.get(key, []) if x['violations'] == 0 and x['watchdog'] == 0]
    json.dump(m, open(mp, 'w'), indent=1, ensure_ascii=False)
print('updated')
