#!/bin/bash
# tools/mutant_sweep.sh : every seeded change against the quick tier of its own property (plus the checks named in its meta.json)
# REPO defaults to /repo; a background sweep on a snapshot sets VERIF_REPO.
here="$(cd "$(dirname "$0")/.." && pwd)"
out="${1:-$here/out/sweep.txt}"; mkdir -p "$(dirname "$out")"; : > "$out"
# SEED_DIR: where the seeded changes live (default: the committed ones)
# ONLY_K="9 10": only the changes with these numbers
for d in "${SEED_DIR:-$here/seeded}"/C*/[0-9]*; do
  [ -d "$d" ] || continue
  p=$(basename "$(dirname "$d")"); k=$(basename "$d")
  if [ -n "${ONLY_K:-}" ] && ! echo " $ONLY_K " | grep -q " $k "; then continue; fi
  # SKIP_FILE: a file with lines starting with "Cnn/k " (e.g. an earlier, partial table): those changes are skipped
  if [ -n "${SKIP_FILE:-}" ] && grep -q "^$p/$k " "$SKIP_FILE"; then continue; fi
  ids=$(python3 -c "import json;m=json.load(open('$d/meta.json'));print(' '.join(sorted(set([m.get('property','$p')]+[c['check'] for c in m.get('caught_by',[])]))))")
  for id in $ids; do
    res=$(MUTANT_OUT="$here/out/mutant" "$here/tools/try_mutant.sh" "$d/patch.diff" $id 2>&1)
    viol=$(echo "$res" | grep -c "^VIOLATION"); sig=$(echo "$res" | grep -m1 "signature:" | sed 's/.*signature: //'); wd=$(echo "$res" | grep -c "WATCHDOG")
    echo "$p/$k $id violations=$viol watchdog=$wd sig=${sig:-none} :: $(echo "$res" | grep -m1 -E 'quick:|does not apply|refusing')" | tee -a "$out"
  done
done
echo finished | tee -a "$out"
