#!/bin/bash
# tools/try_mutant.sh <patch.diff> <Cnn> [<Cnn> ...]
# Applies a seeded change to /repo, runs the quick checks, and undoes it straight afterwards.
# Evidence and replays of these runs go to a scratch directory, never to /verif/evidence.
set -u
patch="$1"; shift
out="${MUTANT_OUT:-/tmp/mutant-out}"; mkdir -p "$out"
if ! git -C /repo diff --quiet; then echo "refusing: /repo has uncommitted changes"; exit 2; fi
if ! git -C /repo apply "$patch" 2>/dev/null; then
  # written against an older HEAD: retry with fuzz
  if ! (cd /repo && patch -p1 -F3 -s --no-backup-if-mismatch < "$patch"); then echo "patch does not apply"; git -C /repo checkout -- .; exit 2; fi
fi
trap 'git -C /repo checkout -- . ; git -C /repo clean -fdq src test js 2>/dev/null' EXIT
for id in "$@"; do
  VERIF_EVIDENCE_DIR="$out/evidence" VERIF_FOUND_DIR="$out/found" /verif/run "$id" quick 2>&1 | grep -v "^proptest" | grep -v "^KNOWN-FINDING" | grep -E "VIOLATION|signature|detail|INCONCLUSIVE|quick:" | cut -c1-400
done
