#!/bin/bash
# tools/try_mutant.sh <patch.diff> <Cnn> [<Cnn> ...]
# Applies a seeded change to $REPO, runs the quick checks, and undoes it straight afterwards.
# Evidence and replays of these runs go to a scratch directory, never to /verif/evidence.
set -u
REPO="${VERIF_REPO:-/repo}"
ROOT="$(cd "$(dirname "$0")/.." && pwd)"
patch="$1"; shift
out="${MUTANT_OUT:-/tmp/mutant-out}"; mkdir -p "$out"
if ! git -C $REPO diff --quiet; then echo "refusing: $REPO has uncommitted changes"; exit 2; fi
if ! git -C $REPO apply "$patch" 2>/dev/null; then
  # written against an older HEAD: retry with fuzz
  if ! (cd $REPO && patch -p1 -F3 -s --no-backup-if-mismatch < "$patch"); then echo "patch does not apply"; git -C $REPO checkout -- .; exit 2; fi
fi
trap 'git -C $REPO checkout -- . ; git -C $REPO clean -fdq src test js 2>/dev/null' EXIT
for id in "$@"; do
  VERIF_EVIDENCE_DIR="$out/evidence" VERIF_FOUND_DIR="$out/found" VERIF_REPO="$REPO" "$ROOT/run" "$id" quick 2>&1 | grep -v "^proptest" | grep -v "^KNOWN-FINDING" | grep -E "VIOLATION|signature|detail|INCONCLUSIVE|quick:" | cut -c1-400
done
