//! Structure-aware target: the fuzzer's bytes ARE the choice tape of G_cfg x G_prog; the semantic oracles
//! (eraser round trip, operand mirror, site predicate, closed world, scope analysis, metrics, status
//! invariants) run inside the target. A property failure whose signature is not an open known finding
//! writes its explicit case as a replay file and aborts, so that libFuzzer keeps the input.
#![no_main]
use libfuzzer_sys::fuzz_target;
use verif::engine::{Check, Ctx, Verdict};

fn props() -> Vec<Box<dyn Check>> {
    let want = std::env::var("VERIF_FUZZ_PROPS").unwrap_or_else(|_| "C02,C03,C04,C05,C06,C07,C09,C10,C12,C14,C15".into());
    let mut v: Vec<Box<dyn Check>> = vec![];
    for id in want.split(',') {
        match id {
            "C02" => v.push(Box::new(verif::props_static::C02)),
            "C03" => v.push(Box::new(verif::props_static::C03Static)),
            "C04" => v.push(Box::new(verif::props_static::C04)),
            "C05" => v.push(Box::new(verif::props_static::C05Static)),
            "C06" => v.push(Box::new(verif::props_c06::C06Static)),
            "C07" => v.push(Box::new(verif::props_more::C07Static)),
            "C09" => v.push(Box::new(verif::props_map::C09)),
            "C10" => v.push(Box::new(verif::props_map::C10)),
            "C12" => v.push(Box::new(verif::props_more::C12)),
            "C14" => v.push(Box::new(verif::props_c14::C14)),
            "C15" => v.push(Box::new(verif::props_more::C15)),
            _ => {}
        }
    }
    v
}

thread_local! {
    static PROPS: Vec<Box<dyn Check>> = props();
    static KNOWN: Vec<String> = verif::known::load().into_iter().map(|f| f.signature).collect();
}

fuzz_target!(|data: &[u8]| {
    if data.len() > 1200 {
        return;
    }
    verif::rw::install_panic_hook_once();
    // in-process oracles only: no Node worker, no sub-processes
    std::env::set_var("VERIF_NO_NODE", "1");
    PROPS.with(|props| {
        let mut ctx = Ctx { thread: 0, node: None };
        // one decoded case per generator family (each check decodes its own flavour of case)
        for p in props.iter() {
            let case = p.decode(data, 0);
            let out = p.eval(&case, &mut ctx);
            if let Verdict::Fail(sig, detail) = out.verdict {
                if KNOWN.with(|k| k.iter().any(|s| *s == sig)) {
                    continue;
                }
                let dir = std::env::var("VERIF_FOUND_DIR").unwrap_or_else(|_| "/verif/replays/found".into());
                let _ = std::fs::create_dir_all(&dir);
                let path = format!("{dir}/{}-fuzz-{:016x}.json", p.id(), verif::engine::hash_value(&case));
                let doc = serde_json::json!({"property": p.id(), "signature": sig, "detail": detail, "case": case});
                let _ = std::fs::write(&path, serde_json::to_string_pretty(&doc).unwrap());
                eprintln!("FUZZ-VIOLATION property={} replay={}", p.id(), path);
                std::process::abort();
            }
        }
    });
});
