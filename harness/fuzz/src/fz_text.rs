//! Raw-text target for C13 (totality) with C08 / C12 invariants on whatever comes back: the bytes are
//! (selector bytes, text). The first bytes choose file name, configuration and source-map reference
//! variant; the rest is the source text as is.
#![no_main]
use libfuzzer_sys::fuzz_target;
use verif::engine::Verdict;

thread_local! {
    static KNOWN: Vec<String> = verif::known::load().into_iter().map(|f| f.signature).collect();
}

fuzz_target!(|data: &[u8]| {
    if data.len() < 4 || data.len() > 16 * 1024 {
        return;
    }
    verif::rw::install_panic_hook_once();
    let case = verif::props_more::text_case(&data[..4], &String::from_utf8_lossy(&data[4..]));
    let out = verif::props_more::eval_totality(&case);
    if let Verdict::Fail(sig, detail) = out.verdict {
        if KNOWN.with(|k| k.iter().any(|s| *s == sig)) {
            return;
        }
        let dir = std::env::var("VERIF_FOUND_DIR").unwrap_or_else(|_| "/verif/replays/found".into());
        let _ = std::fs::create_dir_all(&dir);
        let path = format!("{dir}/C13-fuzz-{:016x}.json", verif::engine::hash_value(&case));
        let doc = serde_json::json!({"property": "C13", "signature": sig, "detail": detail, "case": case});
        let _ = std::fs::write(&path, serde_json::to_string_pretty(&doc).unwrap());
        eprintln!("FUZZ-VIOLATION property=C13 replay={}", path);
        std::process::abort();
    }
});
