//! known_findings.txt: genuine defects recorded rather than repaired (`finding:` lines) and repaired
//! ones (`fixed:` lines, which suppress nothing). Never written at run time.
use crate::gen::Avoid;

#[derive(Clone, Debug)]
pub struct Finding {
    pub property: String,
    pub id: String,
    pub signature: String,
    pub witness: String,
    pub avoid: Vec<String>,
    pub description: String,
}

pub fn path() -> String {
    format!("{}/known_findings.txt", crate::engine::verif_root())
}

/// the file is read once per process (it is never written at run time)
pub fn load() -> Vec<Finding> {
    static CACHE: std::sync::OnceLock<Vec<Finding>> = std::sync::OnceLock::new();
    CACHE.get_or_init(load_uncached).clone()
}

fn load_uncached() -> Vec<Finding> {
    let text = std::fs::read_to_string(path()).unwrap_or_default();
    let mut out = vec![];
    for line in text.lines() {
        let line = line.trim();
        if !line.starts_with("finding:") {
            continue;
        }
        let (head, desc) = match line.split_once(" :: ") {
            Some((h, d)) => (h, d.to_string()),
            None => (line, String::new()),
        };
        let mut f = Finding { property: String::new(), id: String::new(), signature: String::new(), witness: String::new(), avoid: vec![], description: desc };
        for tok in head["finding:".len()..].split_whitespace() {
            if let Some((k, v)) = tok.split_once('=') {
                match k {
                    "property" => f.property = v.to_string(),
                    "id" => f.id = v.to_string(),
                    "signature" => f.signature = v.to_string(),
                    "witness" => f.witness = v.to_string(),
                    "avoid" => f.avoid = v.split(',').map(|s| s.to_string()).collect(),
                    _ => {}
                }
            }
        }
        out.push(f);
    }
    out
}

pub fn open_findings(property: &str) -> Vec<Finding> {
    load().into_iter().filter(|f| f.property == property).collect()
}

pub fn open_signatures(property: &str) -> Vec<String> {
    open_findings(property).into_iter().map(|f| f.signature).collect()
}

/// Generator exclusions implied by *all* open findings (a trigger class hurts every property that executes it).
pub fn avoid_flags() -> Avoid {
    static CACHE: std::sync::OnceLock<Avoid> = std::sync::OnceLock::new();
    CACHE.get_or_init(avoid_flags_uncached).clone()
}

fn avoid_flags_uncached() -> Avoid {
    let mut a = Avoid::default();
    for f in load() {
        for flag in &f.avoid {
            match flag.as_str() {
                "compound_effectful_target" => a.compound_effectful_target = true,
                "nested_opt_chain" => a.nested_opt_chain = true,
                "literal_sum_operand" => a.literal_sum_operand = true,
                "instr_in_param_default" => a.instr_in_param_default = true,
                "if_direct" => a.if_direct = true,
                "multi_directive" => a.multi_directive = true,
                "bom_midfile" => a.bom_midfile = true,
                "regex_literal_operand" => a.regex_literal_operand = true,
                "lone_surrogate_literal" => a.lone_surrogate_literal = true,
                "spread_noniterable_literal" => a.spread_noniterable_literal = true,
                "missing_proto_method" => a.missing_proto_method = true,
                "plain_sum_operand" => a.plain_sum_operand = true,
                "opt_call_paren_callee" => a.opt_call_paren_callee = true,
                "legacy_decimal_member" => a.legacy_decimal_member = true,
                "apply_surplus_args" => a.apply_surplus_args = true,
                "super_key_before_super_call" => a.super_key_before_super_call = true,
                _ => {}
            }
        }
    }
    a
}
