//! Normal form of swc JSON trees, and the *eraser*: the independent inverse of the instrumentation
//! (hook calls, injected temporaries and declarations, prologue, optional-chain guards). Shares no
//! code with /repo/src. A failure to erase means the output is not "input + the documented shapes".
use serde_json::{json, Map, Value};
use std::collections::HashMap;

pub const DDIAST: &str = "_ddiast";

pub fn ty(v: &Value) -> &str {
    v.get("type").and_then(|t| t.as_str()).unwrap_or("")
}

pub fn ident_name(v: &Value) -> Option<&str> {
    if ty(v) == "Identifier" {
        v.get("value").and_then(|s| s.as_str())
    } else {
        None
    }
}

fn span_of(v: &Value) -> Value {
    v.get("$span").cloned().unwrap_or(Value::Null)
}

const DROP_KEYS: &[&str] = &[
    "ctxt", "typeAnnotation", "typeArguments", "typeParameters", "typeParams", "returnType", "definite", "declare", "accessibility", "isOverride",
    "isAbstract", "isOptional", "readonly", "implements", "superTypeParams", "decorators",
];
const SPAN_FLAG_KEYS: &[&str] = &["spread", "rest", "dot3Token", "questionDotToken"];

/// Normal form: spans kept under `$span` (ignored by comparison), parentheses removed (`$paren`
/// mark left on the inner node), `raw` spellings dropped, optional chains turned into plain
/// member / call nodes carrying `optional` and `inChain` flags.
pub fn normalize(v: &Value) -> Value {
    match v {
        Value::Object(m) => {
            let t = m.get("type").and_then(|t| t.as_str()).unwrap_or("");
            if t == "ParenthesisExpression" {
                let mut inner = normalize(&m["expression"]);
                if let Some(o) = inner.as_object_mut() {
                    o.insert("$paren".into(), json!(true));
                }
                return inner;
            }
            if t == "OptionalChainingExpression" {
                let mut base = normalize(&m["base"]);
                if let Some(o) = base.as_object_mut() {
                    o.insert("optional".into(), m.get("optional").cloned().unwrap_or(json!(false)));
                    o.insert("inChain".into(), json!(true));
                    // the wrapper's span is the link's span
                    if let Some(sp) = m.get("span") {
                        o.insert("$span".into(), sp.clone());
                    }
                }
                return base;
            }
            let mut out = Map::new();
            for (k, val) in m {
                if k == "span" {
                    out.insert("$span".into(), val.clone());
                    continue;
                }
                if DROP_KEYS.contains(&k.as_str()) {
                    continue;
                }
                if k == "raw" && t != "TemplateElement" {
                    // (the spelling of a string literal decides whether a directive is a Use Strict Directive: kept aside)
                    if t == "StringLiteral" {
                        out.insert("$raw".into(), val.clone());
                    }
                    continue;
                }
                if k == "optional" && t == "Identifier" {
                    continue;
                }
                if SPAN_FLAG_KEYS.contains(&k.as_str()) {
                    out.insert(k.clone(), json!(!val.is_null()));
                    continue;
                }
                if t == "TemplateElement" && (k == "raw" || k == "cooked") {
                    // the spec normalises <CR><LF> and <CR> to <LF> in both the raw and the cooked value
                    if let Some(s) = val.as_str() {
                        out.insert(k.clone(), json!(s.replace("\r\n", "\n").replace('\r', "\n")));
                        continue;
                    }
                }
                out.insert(k.clone(), normalize(val));
            }
            if t == "MemberExpression" || t == "CallExpression" {
                out.entry("optional".to_string()).or_insert(json!(false));
                out.entry("inChain".to_string()).or_insert(json!(false));
            }
            if t == "StringLiteral" || t == "TemplateElement" {
                // lone surrogates are serialised differently by `value` / `cooked`; keep as given
            }
            Value::Object(out)
        }
        Value::Array(a) => Value::Array(a.iter().map(normalize).collect()),
        x => x.clone(),
    }
}

/// second normalisation stage applied to both sides after erasure:
/// expression-bodied arrows == `{ return e }` arrows; `L = L + R` with pure simple `L` == `L += R`.
pub fn canonicalize(v: &mut Value) {
    match v {
        Value::Object(m) => {
            for (_, val) in m.iter_mut() {
                canonicalize(val);
            }
            let t = m.get("type").and_then(|t| t.as_str()).unwrap_or("").to_string();
            if t == "ArrowFunctionExpression" {
                let body = &m["body"];
                if ty(body) != "BlockStatement" {
                    let e = m.remove("body").unwrap();
                    m.insert(
                        "body".into(),
                        json!({"type": "BlockStatement", "$arrowExprBody": true, "stmts": [{"type": "ReturnStatement", "argument": e}]}),
                    );
                }
            }
            if t == "AssignmentExpression" && m.get("operator").and_then(|o| o.as_str()) == Some("=") {
                let right = &m["right"];
                if ty(right) == "BinaryExpression"
                    && right.get("operator").and_then(|o| o.as_str()) == Some("+")
                    && equal_ignoring_meta(&m["left"], &right["left"])
                    && is_pure_simple_target(&m["left"])
                {
                    let right = m.remove("right").unwrap();
                    let hook = right.get("$hook").cloned();
                    m.insert("operator".into(), json!("+="));
                    m.insert("right".into(), right["right"].clone());
                    m.insert("$refolded".into(), json!(true));
                    if let Some(h) = hook {
                        m.insert("$hook".into(), h);
                    }
                }
            }
        }
        Value::Array(a) => {
            for x in a {
                canonicalize(x);
            }
        }
        _ => {}
    }
}

fn is_leaf_pure(v: &Value) -> bool {
    matches!(
        ty(v),
        "Identifier" | "ThisExpression" | "StringLiteral" | "NumericLiteral" | "BooleanLiteral" | "NullLiteral" | "BigIntLiteral" | "RegExpLiteral"
    )
}

fn is_pure_simple_target(v: &Value) -> bool {
    match ty(v) {
        "Identifier" => true,
        "MemberExpression" => {
            if v["optional"] == json!(true) {
                return false;
            }
            let prop = &v["property"];
            let prop_ok = match ty(prop) {
                "Identifier" | "PrivateName" => true,
                "Computed" => is_leaf_pure(&prop["expression"]),
                _ => false,
            };
            is_leaf_pure(&v["object"]) && prop_ok
        }
        // `super.p` / `super[k]`
        "SuperPropExpression" => match ty(&v["property"]) {
            "Identifier" => true,
            "Computed" => is_leaf_pure(&v["property"]["expression"]),
            _ => false,
        },
        _ => false,
    }
}

/// structural equality ignoring every key that starts with `$`
pub fn equal_ignoring_meta(a: &Value, b: &Value) -> bool {
    first_diff(a, b, "").is_none()
}

pub fn first_diff(a: &Value, b: &Value, path: &str) -> Option<String> {
    match (a, b) {
        (Value::Object(x), Value::Object(y)) => {
            for (k, v) in x {
                if k.starts_with('$') {
                    continue;
                }
                match y.get(k) {
                    Some(w) => {
                        if let Some(d) = first_diff(v, w, &format!("{path}.{k}")) {
                            return Some(d);
                        }
                    }
                    None => return Some(format!("{path}.{k}: missing on the right ({})", brief(v))),
                }
            }
            for k in y.keys() {
                if !k.starts_with('$') && !x.contains_key(k) {
                    return Some(format!("{path}.{k}: missing on the left"));
                }
            }
            None
        }
        (Value::Array(x), Value::Array(y)) => {
            if x.len() != y.len() {
                return Some(format!("{path}: length {} vs {} ({} | {})", x.len(), y.len(), brief(a), brief(b)));
            }
            for (i, (v, w)) in x.iter().zip(y).enumerate() {
                if let Some(d) = first_diff(v, w, &format!("{path}[{i}]")) {
                    return Some(d);
                }
            }
            None
        }
        _ => {
            if a == b {
                None
            } else {
                Some(format!("{path}: {} vs {}", brief(a), brief(b)))
            }
        }
    }
}

pub fn brief(v: &Value) -> String {
    let s = strip_meta(v).to_string();
    s.chars().take(160).collect()
}

pub fn strip_meta(v: &Value) -> Value {
    match v {
        Value::Object(m) => Value::Object(m.iter().filter(|(k, _)| !k.starts_with('$')).map(|(k, v)| (k.clone(), strip_meta(v))).collect()),
        Value::Array(a) => Value::Array(a.iter().map(strip_meta).collect()),
        x => x.clone(),
    }
}

/// copy `$hook` / `$span` (as `$ospan`) / `$refolded` from the erased output onto the structurally equal input tree
pub fn annotate(input: &mut Value, out: &Value) {
    match (input, out) {
        (Value::Object(x), Value::Object(y)) => {
            if let Some(h) = y.get("$hook") {
                x.insert("$hook".into(), h.clone());
            }
            if let Some(h) = y.get("$hooks") {
                x.insert("$hooks".into(), h.clone());
            }
            if let Some(s) = y.get("$span") {
                x.insert("$ospan".into(), s.clone());
            }
            if let Some(s) = y.get("$from") {
                x.insert("$from".into(), s.clone());
            }
            let keys: Vec<String> = x.keys().filter(|k| !k.starts_with('$')).cloned().collect();
            for k in keys {
                if let (Some(a), Some(b)) = (x.get_mut(&k), y.get(&k)) {
                    annotate(a, b);
                }
            }
        }
        (Value::Array(x), Value::Array(y)) => {
            for (a, b) in x.iter_mut().zip(y) {
                annotate(a, b);
            }
        }
        _ => {}
    }
}

#[derive(Clone, Debug)]
pub struct EraseError {
    pub sig: String,
    pub detail: String,
}

fn err<T>(sig: &str, detail: impl Into<String>) -> Result<T, EraseError> {
    Err(EraseError { sig: sig.to_string(), detail: detail.into() })
}

struct Binding {
    raw: Value,
    value: Value,
    uses: u32,
    seq_id: usize,
    order: usize,
}

pub struct Eraser {
    pub prefix: String,
    env: HashMap<String, Binding>,
    seq_counter: usize,
    order_counter: usize,
    /// all hook calls found: (name, kind, span of the hook call in the output)
    pub hooks: Vec<Value>,
    pub prologue_found: bool,
    /// index (among the program's statements, directives included) at which the prologue started
    pub prologue_index: Option<usize>,
    /// declared temporaries per injected `let` (for C06): (names, span)
    pub lets: Vec<Value>,
    /// C03 findings (operand list does not mirror the operation): recorded, erasure continues
    pub soft: Vec<EraseError>,
}

pub fn is_reserved(name: &str, prefix: &str) -> bool {
    name.strip_prefix("__datadog_").and_then(|r| r.strip_prefix(prefix)).map(|r| r.starts_with('_')).unwrap_or(false)
}

impl Eraser {
    pub fn new(prefix: &str) -> Self {
        Eraser {
            prefix: prefix.to_string(),
            env: HashMap::new(),
            seq_counter: 0,
            order_counter: 0,
            hooks: vec![],
            prologue_found: false,
            prologue_index: None,
            lets: vec![],
            soft: vec![],
        }
    }

    fn is_temp(&self, name: &str) -> bool {
        is_reserved(name, &self.prefix)
    }

    fn temp_name<'v>(&self, v: &'v Value) -> Option<&'v str> {
        ident_name(v).filter(|n| self.is_temp(n))
    }

    fn is_prologue_if(v: &Value) -> bool {
        if ty(v) != "IfStatement" {
            return false;
        }
        let t = &v["test"];
        ty(t) == "BinaryExpression"
            && t["operator"] == json!("===")
            && ty(&t["left"]) == "UnaryExpression"
            && t["left"]["operator"] == json!("typeof")
            && ident_name(&t["left"]["argument"]) == Some(DDIAST)
            && t["right"]["value"] == json!("undefined")
    }

    fn is_injected_let(&self, v: &Value) -> bool {
        ty(v) == "VariableDeclaration"
            && v["kind"] == json!("let")
            && v["declarations"].as_array().map(|d| {
                !d.is_empty() && d.iter().all(|x| x["init"].is_null() && self.temp_name(&x["id"]).is_some())
            }) == Some(true)
    }

    pub fn is_directive(v: &Value) -> bool {
        ty(v) == "ExpressionStatement" && ty(&v["expression"]) == "StringLiteral" && v["expression"].get("$paren").is_none()
    }

    /// erase a normalised output program
    pub fn erase_program(&mut self, v: &Value) -> Result<Value, EraseError> {
        let mut out = v.clone();
        let body = v["body"].as_array().cloned().unwrap_or_default();
        let mut stmts = vec![];
        let mut i = 0;
        while i < body.len() {
            let s = &body[i];
            if !self.prologue_found && ty(s) == "EmptyStatement" && i + 1 < body.len() && Self::is_prologue_if(&body[i + 1]) {
                self.prologue_found = true;
                self.prologue_index = Some(i);
                i += 2;
                continue;
            }
            stmts.push(self.erase(s)?);
            i += 1;
        }
        out["body"] = Value::Array(stmts);
        self.check_no_reserved(&out)?;
        Ok(out)
    }

    fn check_no_reserved(&self, v: &Value) -> Result<(), EraseError> {
        match v {
            Value::Object(m) => {
                if let Some(n) = ident_name(v) {
                    if self.is_temp(n) {
                        return err("reserved-left", format!("identifier {n} survives erasure"));
                    }
                    if n == DDIAST {
                        return err("hook-namespace-left", "a reference to _ddiast survives erasure (not a call _ddiast.<name>(...))");
                    }
                }
                let t = ty(v);
                for (k, x) in m {
                    if k.starts_with('$') {
                        continue;
                    }
                    if ty(x) == "Identifier" && ((t == "MemberExpression" && k == "property") || k == "key" || k == "label") {
                        continue;
                    }
                    self.check_no_reserved(x)?;
                }
                Ok(())
            }
            Value::Array(a) => {
                for x in a {
                    self.check_no_reserved(x)?;
                }
                Ok(())
            }
            _ => Ok(()),
        }
    }

    fn erase_stmt_list(&mut self, list: &[Value]) -> Result<Vec<Value>, EraseError> {
        // injected `let` right after the directive prologue of a block / function body
        let mut out = vec![];
        let mut seen_non_directive = false;
        let mut let_removed = false;
        let directives = list.iter().filter(|s| !self.is_injected_let(s)).take_while(|s| Self::is_directive(s)).count();
        for s in list {
            if !let_removed && self.is_injected_let(s) {
                let names: Vec<Value> = s["declarations"].as_array().unwrap().iter().map(|d| d["id"]["value"].clone()).collect();
                self.lets.push(json!({"names": names, "span": span_of(s), "afterNonDirective": seen_non_directive, "index": out.len(), "directives": directives}));
                let_removed = true;
                continue;
            }
            if !Self::is_directive(s) {
                seen_non_directive = true;
            }
            out.push(self.erase(s)?);
        }
        Ok(out)
    }

    /// generic recursive erasure
    pub fn erase(&mut self, v: &Value) -> Result<Value, EraseError> {
        match v {
            Value::Array(a) => {
                let mut out = Vec::with_capacity(a.len());
                for x in a {
                    out.push(self.erase(x)?);
                }
                Ok(Value::Array(out))
            }
            Value::Object(m) => {
                let t = ty(v);
                match t {
                    "BlockStatement" => {
                        let mut o = m.clone();
                        let list = m["stmts"].as_array().cloned().unwrap_or_default();
                        // a block with its own injected `let` shadows the outer temporaries of the same names
                        let mut saved: Vec<(String, Option<Binding>)> = vec![];
                        for s in &list {
                            if self.is_injected_let(s) {
                                for d in s["declarations"].as_array().unwrap() {
                                    let n = d["id"]["value"].as_str().unwrap_or("").to_string();
                                    let old = self.env.remove(&n);
                                    saved.push((n, old));
                                }
                                break;
                            }
                            if !Self::is_directive(s) {
                                break;
                            }
                        }
                        let stmts = self.erase_stmt_list(&list);
                        for (n, old) in saved {
                            self.env.remove(&n);
                            if let Some(b) = old {
                                self.env.insert(n, b);
                            }
                        }
                        o.insert("stmts".into(), Value::Array(stmts?));
                        return Ok(Value::Object(o));
                    }
                    "Identifier" => {
                        if let Some(name) = self.temp_name(v) {
                            return self.use_temp(name);
                        }
                    }
                    "SequenceExpression" => {
                        let exprs = m["expressions"].as_array().cloned().unwrap_or_default();
                        let injected = exprs.first().map(|e| self.is_temp_assign(e)).unwrap_or(false);
                        if injected {
                            return self.erase_injected_sequence(v, &exprs);
                        }
                    }
                    "CallExpression" => {
                        if let Some(r) = self.try_hook_call(v)? {
                            return Ok(r);
                        }
                        if let Some(r) = self.try_fold_call(v)? {
                            return Ok(r);
                        }
                        // `(a?.m(x).p)(..)`: the callee was a (parenthesised) member reference; once its chain is unfolded into
                        // `(t = a, t == null ? undefined : ...p)` or `(t == null ? undefined : ...p)` the call gets a value, not a reference
                        let mut callee = &v["callee"];
                        if ty(callee) == "SequenceExpression" {
                            if let Some(last) = callee["expressions"].as_array().and_then(|a| a.last()) {
                                callee = last;
                            }
                        }
                        if ty(callee) == "ConditionalExpression"
                            && ty(&callee["test"]) == "BinaryExpression"
                            && self.temp_name(&callee["test"]["left"]).is_some()
                            && ty(&callee["test"]["right"]) == "NullLiteral"
                            && matches!(ty(&callee["alternate"]), "MemberExpression" | "SuperPropExpression")
                        {
                            return err("this-lost", format!("the callee of a call is an unfolded optional chain ending in a member ({}): the call has no receiver any more", brief(&callee["alternate"])));
                        }
                    }
                    "ConditionalExpression" => {
                        if let Some(r) = self.try_guard(v)? {
                            return Ok(r);
                        }
                    }
                    "AssignmentExpression" => {
                        if self.is_temp_assign(v) {
                            return err("stray-temp-assignment", format!("assignment to a temporary outside an injected sequence: {}", brief(v)));
                        }
                    }
                    _ => {}
                }
                let mut o = Map::new();
                // evaluation order matters for use counting only through `order`; visit callee before arguments
                let mut keys: Vec<&String> = m.keys().collect();
                keys.sort_by_key(|k| child_rank(t, k));
                for k in keys {
                    let x = &m[k];
                    // names that are not variable references: member names, property keys, labels
                    let is_name = ty(x) == "Identifier" && ((t == "MemberExpression" && k == "property") || k == "key" || k == "label");
                    if k.starts_with('$') || is_name {
                        o.insert(k.clone(), x.clone());
                    } else {
                        o.insert(k.clone(), self.erase(x)?);
                    }
                }
                // `...[...x]` from a spread temporary
                if o.get("spread") == Some(&json!(true)) {
                    if let Some(e) = o.get("expression") {
                        if e.get("$from").is_some() && ty(e) == "ArrayExpression" {
                            let elems = e["elements"].as_array().cloned().unwrap_or_default();
                            if elems.len() == 1 && elems[0]["spread"] == json!(true) {
                                let mut inner = elems[0]["expression"].clone();
                                if let (Some(io), Some(f)) = (inner.as_object_mut(), e.get("$from")) {
                                    io.insert("$from".into(), f.clone());
                                    io.insert("$spreadTemp".into(), json!(true));
                                }
                                o.insert("expression".into(), inner);
                            }
                        }
                    }
                }
                Ok(Value::Object(o))
            }
            x => Ok(x.clone()),
        }
    }

    fn is_temp_assign(&self, e: &Value) -> bool {
        ty(e) == "AssignmentExpression" && e["operator"] == json!("=") && self.temp_name(&e["left"]).is_some()
    }

    fn use_temp(&mut self, name: &str) -> Result<Value, EraseError> {
        match self.env.get_mut(name) {
            Some(b) => {
                b.uses += 1;
                let mut v = b.value.clone();
                if let Some(o) = v.as_object_mut() {
                    let mut from = o.get("$from").and_then(|f| f.as_array().cloned()).unwrap_or_default();
                    from.push(json!(format!("{}#{}", name, b.seq_id)));
                    o.insert("$from".into(), Value::Array(from));
                }
                Ok(v)
            }
            None => err("temp-read-before-assignment", format!("temporary {name} is read but no assignment precedes it in an enclosing injected sequence")),
        }
    }

    fn erase_injected_sequence(&mut self, _v: &Value, exprs: &[Value]) -> Result<Value, EraseError> {
        self.seq_counter += 1;
        let seq_id = self.seq_counter;
        let mut assigned: Vec<String> = vec![];
        let mut shadowed: Vec<(String, Binding)> = vec![];
        let n = exprs.len();
        for (i, e) in exprs.iter().enumerate() {
            if i + 1 == n {
                break;
            }
            if !self.is_temp_assign(e) {
                return err("sequence-shape", format!("non-assignment in the middle of an injected sequence: {}", brief(e)));
            }
            let name = self.temp_name(&e["left"]).unwrap().to_string();
            if assigned.contains(&name) {
                return err("temp-reassigned", format!("{name} assigned twice in one injected sequence"));
            }
            let value = self.erase(&e["right"])?;
            self.order_counter += 1;
            let b = Binding { raw: e["right"].clone(), value, uses: 0, seq_id, order: self.order_counter };
            if let Some(old) = self.env.insert(name.clone(), b) {
                // an outer binding of the same name: it must not be needed any more (checked by its own use count)
                shadowed.push((name.clone(), old));
            }
            assigned.push(name);
        }
        let mut last = self.erase(&exprs[n - 1])?;
        // `(t0 = OBJ, t1 = KEY, t0[t1] = hook(t0[t1] + R, ..))`: the lowering of `OBJ[KEY] += R` with an effectful
        // target. Both copies of the target come from the same single evaluation (the temporaries): fold it
        // back here and do not count the second copy as a second use.
        if ty(&last) == "AssignmentExpression" && last["operator"] == json!("=") && matches!(ty(&last["left"]), "MemberExpression" | "SuperPropExpression") {
            let r = &last["right"];
            if ty(r) == "BinaryExpression" && r["operator"] == json!("+") && r.get("$hook").is_some() && equal_ignoring_meta(&last["left"], &r["left"]) {
                let mut dup = vec![];
                collect_from_postorder(&r["left"], &mut dup);
                let suffix = format!("#{seq_id}");
                let mut only_temps_duplicated = true;
                // the duplicated sub-expressions must be exactly substitutions of temporaries of this sequence (or pure leaves)
                if !target_parts_from_temps(&r["left"], &suffix) {
                    only_temps_duplicated = false;
                }
                if only_temps_duplicated {
                    for d in dup.iter().filter_map(|d| d.strip_suffix(&suffix)) {
                        if let Some(b) = self.env.get_mut(d) {
                            if b.uses > 0 {
                                b.uses -= 1;
                            }
                        }
                    }
                    let obj = last.as_object_mut().unwrap();
                    let right = obj.remove("right").unwrap();
                    obj.insert("operator".into(), json!("+="));
                    obj.insert("right".into(), right["right"].clone());
                    if let Some(h) = right.get("$hook") {
                        obj.insert("$hook".into(), h.clone());
                    }
                }
            }
        }
        // every temporary of this sequence is used exactly once
        for name in &assigned {
            let b = self.env.get(name).unwrap();
            debug_assert_eq!(b.seq_id, seq_id);
            if b.uses != 1 {
                let sig = if b.uses == 0 { "operand-dropped" } else { "operand-survives-twice" };
                return err(sig, format!("temporary {name} (= {}) is used {} times after erasure", brief(&b.raw), b.uses));
            }
        }
        // assignment order == completion order of the uses (static `X.prototype.m` paths exempt)
        let mut use_order = vec![];
        collect_from_postorder(&last, &mut use_order);
        let suffix = format!("#{seq_id}");
        let use_order: Vec<String> = use_order.iter().filter_map(|n| n.strip_suffix(&suffix).map(|s| s.to_string())).collect();
        // exempt: static prototype / fresh-literal paths (tolerated by the statement) and temporaries that merely hold a
        // plain identifier, `this` or a literal (moving such a read is not observable)
        let assigned_checked: Vec<&String> = assigned
            .iter()
            .filter(|n| {
                let raw = &self.env[*n].raw;
                !is_static_path(raw) && !(matches!(ty(raw), "Identifier" | "ThisExpression") && !self.is_temp(ident_name(raw).unwrap_or(""))) && !is_lit_node(raw)
            })
            .collect();
        let used: Vec<&String> = use_order.iter().filter(|n| assigned_checked.contains(n)).collect();
        let mut dedup: Vec<&String> = vec![];
        for u in used {
            if !dedup.contains(&u) {
                dedup.push(u);
            }
        }
        if dedup != assigned_checked {
            // explained by an identifier-only member path (`a.b.m.call(thisArg, ..)`, not a `.prototype` path) read after `thisArg`?
            let is_ident_path = |v: &Value| -> bool {
                fn ok(v: &Value) -> bool {
                    match ty(v) {
                        "Identifier" | "ThisExpression" => true,
                        "MemberExpression" => v["optional"] != json!(true) && ident_name(&v["property"]).is_some() && ok(&v["object"]),
                        _ => false,
                    }
                }
                ty(v) == "MemberExpression" && ok(v)
            };
            let without_paths: Vec<&String> = assigned_checked.iter().copied().filter(|n| !is_ident_path(&self.env[*n].raw)).collect();
            let dedup_without: Vec<&String> = dedup.iter().copied().filter(|n| !is_ident_path(&self.env[*n].raw)).collect();
            if without_paths == dedup_without {
                return err(
                    "evaluation-order:member-path-after-this",
                    format!("the member path of `<path>.call/apply(thisArg, ..)` is read after thisArg has been evaluated (assigned {:?}, used {:?})", assigned_checked, dedup),
                );
            }
            return err(
                "evaluation-order",
                format!("temporaries are assigned in the order {:?} but used in the order {:?} in {}", assigned_checked, dedup, strip_meta(&last).to_string().chars().take(700).collect::<String>()),
            );
        }
        // the shadowed outer temporaries must already have been consumed, otherwise they were clobbered while live
        for name in &assigned {
            self.env.remove(name);
        }
        for (name, old) in shadowed {
            if old.uses == 0 {
                return err("temp-clobbered", format!("{name} is reassigned by a nested sequence while its outer value is still needed"));
            }
            self.env.insert(name, old);
        }
        Ok(last)
    }

    /// `_ddiast.<name>(A0, args...)`
    fn try_hook_call(&mut self, v: &Value) -> Result<Option<Value>, EraseError> {
        let callee = &v["callee"];
        if ty(callee) != "MemberExpression" || ident_name(&callee["object"]) != Some(DDIAST) {
            return Ok(None);
        }
        if callee["optional"] == json!(true) || v["optional"] == json!(true) {
            return err("hook-shape", "optional hook invocation");
        }
        let name = match ident_name(&callee["property"]) {
            Some(n) => n.to_string(),
            None => return err("hook-shape", format!("hook namespace dereferenced with a non identifier property: {}", brief(callee))),
        };
        let args = v["arguments"].as_array().cloned().unwrap_or_default();
        if args.is_empty() || args[0]["spread"] == json!(true) {
            return err("hook-shape", "hook call without a plain first argument");
        }
        let a0 = &args[0]["expression"];
        let rest: Vec<Value> = args[1..].to_vec();
        let (kind, soft) = self.check_hook_args(&name, a0, &rest)?;
        if let Some(e) = soft {
            self.soft.push(e);
        }
        let mut erased = self.erase(a0)?;
        let info = json!({"name": name, "kind": kind, "span": span_of(v), "args": rest.len()});
        self.hooks.push(info.clone());
        if let Some(o) = erased.as_object_mut() {
            if o.contains_key("$hook") {
                // two hooks on one node cannot happen with the documented shapes
                return err("hook-shape", "hook call directly wrapping another hook call");
            }
            o.insert("$hook".into(), info);
        }
        Ok(Some(erased))
    }

    fn leaf_ok(&self, e: &Value) -> bool {
        matches!(
            ty(e),
            "Identifier" | "StringLiteral" | "NumericLiteral" | "BooleanLiteral" | "NullLiteral" | "BigIntLiteral" | "RegExpLiteral" | "JSXText"
        ) || (ty(e) == "TemplateLiteral" && e["expressions"].as_array().map(|a| a.is_empty()).unwrap_or(false))
    }

    /// C03 static mirror: the operand list is exactly the operands of A0, as leaves
    fn check_hook_args(&self, name: &str, a0: &Value, rest: &[Value]) -> Result<(&'static str, Option<EraseError>), EraseError> {
        let (kind, expected): (&'static str, Vec<Value>) = match ty(a0) {
            "BinaryExpression" if a0["operator"] == json!("+") => (
                "plus",
                vec![json!({"spread": false, "expression": a0["left"]}), json!({"spread": false, "expression": a0["right"]})],
            ),
            "TemplateLiteral" => ("tpl", a0["expressions"].as_array().unwrap().iter().map(|e| json!({"spread": false, "expression": e})).collect()),
            "CallExpression" => {
                let callee = &a0["callee"];
                let cargs = a0["arguments"].as_array().cloned().unwrap_or_default();
                if ty(callee) == "Identifier" {
                    let mut ex = vec![json!({"spread": false, "expression": callee}), json!({"spread": false, "expression": {"type": "Identifier", "value": "undefined"}})];
                    ex.extend(cargs);
                    ("bare", ex)
                } else if ty(callee) == "MemberExpression" && matches!(ident_name(&callee["property"]), Some("call") | Some("apply")) {
                    let is_apply = ident_name(&callee["property"]) == Some("apply");
                    let mut ex = vec![json!({"spread": false, "expression": callee["object"]})];
                    if is_apply {
                        for (i, a) in cargs.iter().enumerate() {
                            if i == 1 && a["spread"] == json!(false) && ty(&a["expression"]) == "ArrayExpression" {
                                for el in a["expression"]["elements"].as_array().unwrap() {
                                    if el.is_null() {
                                        // a hole of the arguments array is an `undefined` argument of the call
                                        ex.push(json!({"spread": false, "expression": {"type": "Identifier", "value": "undefined"}}));
                                        continue;
                                    }
                                    ex.push(el.clone());
                                }
                            } else {
                                ex.push(a.clone());
                            }
                        }
                        ("apply", ex)
                    } else {
                        ex.extend(cargs);
                        ("call", ex)
                    }
                } else {
                    return err("hook-shape", format!("hook {name}: first argument is a call of an unexpected shape: {}", brief(a0)));
                }
            }
            _ => return err("hook-shape", format!("hook {name}: first argument is not an operation: {}", brief(a0))),
        };
        let soft = |sig: &str, detail: String| Ok((kind, Some(EraseError { sig: sig.to_string(), detail })));
        if expected.len() != rest.len() {
            let lit_sum = kind == "plus" && (is_literal_sum(&a0["left"]) || is_literal_sum(&a0["right"]) || is_literal_sum_tail(a0));
            // operands that are un-instrumented `+` expressions (plus operator not enabled) left out of the list
            let without_sums: Vec<&Value> = expected.iter().filter(|e| !(ty(&e["expression"]) == "BinaryExpression" && e["expression"]["operator"] == json!("+"))).collect();
            let plain_sum_omitted = without_sums.len() == rest.len() && without_sums.iter().zip(rest).all(|(e, r)| equal_ignoring_meta(e, r));
            // `apply(thisArg, [..], surplus..)`: the surplus arguments are treated like argument arrays (known finding)
            let apply_surplus = kind == "apply" && a0["arguments"].as_array().map(|a| a.len() > 2).unwrap_or(false);
            return soft(
                if lit_sum { "hook-args:literal-sum" } else if plain_sum_omitted { "hook-args:plain-sum-omitted" } else if apply_surplus { "hook-args:apply-surplus-argument" } else { "hook-args" },
                format!("hook {name} ({kind}): {} operand(s) passed, the operation has {}: {} vs {}", rest.len(), expected.len(), brief(&json!(rest)), brief(&json!(expected))),
            );
        }
        // `a + <hoisted effectful expression>`: an identifier left in place is read AFTER the hoisted operand
        if kind == "plus" {
            let l = &a0["left"];
            let r = &a0["right"];
            if let (Some(ln), Some(rn)) = (ident_name(l), self.temp_name(r)) {
                if !self.is_temp(ln) && ln != "undefined" {
                    if let Some(b) = self.env.get(rn) {
                        if !is_pure_operand(&b.raw, self) {
                            return soft(
                                "kept-identifier-after-effect",
                                format!("`{ln}` is left in place as left operand while the right operand {} was hoisted in front of it: `{ln}` is now read after that expression has been evaluated", brief(&b.raw)),
                            );
                        }
                    }
                }
            }
        }
        for (i, (e, r)) in expected.iter().zip(rest).enumerate() {
            // a spread operand must be materialised once (`t = [...x]`): spreading `x` again would iterate it twice
            if r["spread"] == json!(true) {
                let ex = &r["expression"];
                // a temporary must hold the single materialised expansion `[...x]`
                let materialised = self.temp_name(ex).and_then(|t| self.env.get(t)).map(|b| {
                    ty(&b.raw) == "ArrayExpression" && b.raw["elements"].as_array().map(|a| a.len() == 1 && a[0]["spread"] == json!(true)).unwrap_or(false)
                });
                let ok = materialised == Some(true) || is_lit_node(ex);
                if !ok && equal_ignoring_meta(e, r) {
                    return soft("hook-args-spread-twice", format!("hook {name} ({kind}): operand {i} spreads {} again instead of a temporary holding its single expansion", brief(ex)));
                }
            }
            if !equal_ignoring_meta(e, r) {
                return soft("hook-args", format!("hook {name} ({kind}): operand {i} is {} but the operation uses {}", brief(r), brief(e)));
            }
            if !self.leaf_ok(&r["expression"]) {
                return soft("hook-args-not-leaf", format!("hook {name} ({kind}): operand {i} is not a temporary, identifier or literal: {}", brief(r)));
            }
        }
        Ok((kind, None))
    }

    /// `T.call(R, args)` where `T = R.m` was assigned in an injected sequence: fold back to `R.m(args)`
    fn try_fold_call(&mut self, v: &Value) -> Result<Option<Value>, EraseError> {
        let callee = &v["callee"];
        if ty(callee) != "MemberExpression" || ident_name(&callee["property"]) != Some("call") {
            // a temporary holding a member expression used directly as callee would lose `this`
            if let Some(t) = self.temp_name(callee) {
                if let Some(b) = self.env.get(t) {
                    // (`t = a?.p` too: an optional member is a member, the call through `t` has no receiver either)
                    let memberish = |v: &Value| ty(v) == "MemberExpression" || ty(v) == "SuperPropExpression" || (ty(v) == "OptionalChainingExpression" && ty(&v["base"]) == "MemberExpression");
                    if memberish(&b.raw) || (memberish(&b.value) && b.value.get("$hook").is_none()) {
                        return err("this-lost", format!("{t} = {} is called directly: the original call's receiver is lost", brief(&b.raw)));
                    }
                }
            }
            return Ok(None);
        }
        let Some(tname) = self.temp_name(&callee["object"]) else { return Ok(None) };
        let tname = tname.to_string();
        let Some(b) = self.env.get(&tname) else { return Ok(None) };
        let raw = b.raw.clone();
        if ty(&raw) != "MemberExpression" {
            return Ok(None);
        }
        let args = v["arguments"].as_array().cloned().unwrap_or_default();
        let Some(first) = args.first() else { return Ok(None) };
        if first["spread"] == json!(true) {
            return Ok(None);
        }
        let recv = &first["expression"];
        let obj = &raw["object"];
        let same_leaf = equal_ignoring_meta(recv, obj) && (self.leaf_ok(obj));
        if !same_leaf {
            return Ok(None);
        }
        // fold: callee := value of T (which already contains the single use of R), drop the receiver argument
        let callee_val = self.use_temp(&tname)?;
        let mut rest = vec![];
        for a in &args[1..] {
            rest.push(self.erase(a)?);
        }
        let mut o = v.as_object().unwrap().clone();
        o.insert("callee".into(), callee_val);
        o.insert("arguments".into(), Value::Array(rest));
        o.insert("$folded".into(), json!(true));
        Ok(Some(Value::Object(o)))
    }

    /// `t == null ? undefined : REST`
    fn try_guard(&mut self, v: &Value) -> Result<Option<Value>, EraseError> {
        let test = &v["test"];
        if ty(test) != "BinaryExpression" || ty(&test["right"]) != "NullLiteral" {
            return Ok(None);
        }
        let Some(t) = self.temp_name(&test["left"]) else { return Ok(None) };
        let t = t.to_string();
        if test["operator"] != json!("==") {
            return err("guard-shape", format!("guard compares {t} with `{}` null (must be ==)", test["operator"]));
        }
        if ident_name(&v["consequent"]) != Some("undefined") {
            return err("guard-shape", "guard does not yield undefined");
        }
        if !self.env.contains_key(&t) {
            return err("temp-read-before-assignment", format!("guard tests {t} which is not assigned"));
        }
        let before = self.env[&t].uses;
        let tagged = format!("{}#{}", t, self.env[&t].seq_id);
        let mut rest = self.erase(&v["alternate"])?;
        let after = self.env[&t].uses;
        if after != before + 1 {
            return err("guard-scope", format!("guarded temporary {t} is used {} times in the guarded expression", after - before));
        }
        // locate the use and check that it lies on the callee/object spine of REST
        let mut path = vec![];
        if !find_from(&rest, &tagged, &mut path) {
            return err("guard-scope", format!("use of {t} not found in the guarded expression"));
        }
        if path.is_empty() {
            return err("guard-scope", format!("guarded expression is {t} itself"));
        }
        for k in &path {
            if k != "object" && k != "callee" {
                return err(
                    "guard-scope",
                    format!("the guarded value {t} is not the base of the guarded expression (reached through `{k}`): {}", brief(&rest)),
                );
            }
        }
        // mark the chain: the link directly above the use is optional, every link up to the root is in the chain
        let mut cur = &mut rest;
        for (i, k) in path.iter().enumerate() {
            let o = cur.as_object_mut().unwrap();
            let t = o.get("type").and_then(|t| t.as_str()).unwrap_or("");
            if t != "MemberExpression" && t != "CallExpression" {
                return err("guard-scope", format!("unexpected node {t} on the chain spine"));
            }
            o.insert("inChain".into(), json!(true));
            if i + 1 == path.len() {
                o.insert("optional".into(), json!(true));
            }
            cur = o.get_mut(k.as_str()).unwrap();
        }
        // an optional chain is only unfolded for the sake of an instrumented call on it: a guard whose expression
        // carries no hook at all altered a chain that should have been left as written
        fn has_hook(v: &Value) -> bool {
            match v {
                Value::Object(m) => m.contains_key("$hook") || m.contains_key("$hooks") || m.iter().any(|(k, x)| !k.starts_with('$') && has_hook(x)),
                Value::Array(a) => a.iter().any(has_hook),
                _ => false,
            }
        }
        if !has_hook(&rest) {
            return err("unfolded-without-hook", format!("the optional chain {} is unfolded into a guard on {t} although no call on it is instrumented", brief(&rest)));
        }
        if let Some(o) = rest.as_object_mut() {
            o.insert("$guard".into(), json!(true));
        }
        Ok(Some(rest))
    }
}

/// operands whose evaluation has no observable effect and does not depend on when it happens
fn is_pure_operand(v: &Value, er: &Eraser) -> bool {
    match ty(v) {
        "Identifier" => true,
        "ThisExpression" | "ArrowFunctionExpression" | "FunctionExpression" => true,
        "TemplateLiteral" => v["expressions"].as_array().map(|a| a.is_empty()).unwrap_or(false),
        _ => is_lit_node(v) || er.leaf_ok(v),
    }
}

fn is_lit_node(v: &Value) -> bool {
    matches!(ty(v), "StringLiteral" | "NumericLiteral" | "BooleanLiteral" | "NullLiteral" | "BigIntLiteral" | "RegExpLiteral")
}

/// `"x" + "y"`: a sum made of literals only
fn is_literal_sum(v: &Value) -> bool {
    ty(v) == "BinaryExpression" && v["operator"] == json!("+") && (is_lit_node(&v["left"]) || is_literal_sum(&v["left"])) && (is_lit_node(&v["right"]) || is_literal_sum(&v["right"]))
}

/// `t + 1 + 2`: a literal-only right operand spliced into the sum without parentheses
fn is_literal_sum_tail(v: &Value) -> bool {
    ty(v) == "BinaryExpression" && is_lit_node(&v["right"]) && ty(&v["left"]) == "BinaryExpression" && v["left"]["operator"] == json!("+") && (is_lit_node(&v["left"]["right"]) || is_literal_sum_tail(&v["left"]))
}

fn child_rank(node_type: &str, key: &str) -> u8 {
    match (node_type, key) {
        ("CallExpression", "callee") | ("NewExpression", "callee") => 0,
        ("ConditionalExpression", "test") => 0,
        ("ConditionalExpression", "consequent") => 1,
        ("ConditionalExpression", "alternate") => 2,
        ("IfStatement", "test") => 0,
        _ => 1,
    }
}

/// object and (computed) key of a member target are substituted temporaries of the sequence `suffix`, or pure leaves
fn target_parts_from_temps(target: &Value, suffix: &str) -> bool {
    let from_seq = |v: &Value| v.get("$from").and_then(|f| f.as_array()).map(|a| a.iter().any(|n| n.as_str().map(|s| s.ends_with(suffix)).unwrap_or(false))).unwrap_or(false);
    let leaf = |v: &Value| matches!(ty(v), "Identifier" | "ThisExpression" | "StringLiteral" | "NumericLiteral" | "BooleanLiteral" | "NullLiteral" | "BigIntLiteral" | "RegExpLiteral");
    // `super[t0] = hook(super[t0] + R, ..)`: `super` itself is not a value
    let obj_ok = if ty(target) == "SuperPropExpression" {
        true
    } else {
        let obj = &target["object"];
        from_seq(obj) || leaf(obj)
    };
    let prop = &target["property"];
    let prop_ok = match ty(prop) {
        "Computed" => from_seq(&prop["expression"]) || leaf(&prop["expression"]),
        _ => true,
    };
    obj_ok && prop_ok
}

/// names in `$from` tags in post-order (completion order of evaluation)
fn collect_from_postorder(v: &Value, out: &mut Vec<String>) {
    match v {
        Value::Object(m) => {
            let t = ty(v);
            let mut keys: Vec<&String> = m.keys().filter(|k| !k.starts_with('$')).collect();
            keys.sort_by_key(|k| (child_rank(t, k), (*k).clone()));
            // a nested function body is not evaluated here
            if !matches!(t, "ArrowFunctionExpression" | "FunctionExpression") {
                for k in keys {
                    collect_from_postorder(&m[k], out);
                }
            }
            if let Some(f) = m.get("$from").and_then(|f| f.as_array()) {
                for n in f {
                    if let Some(s) = n.as_str() {
                        out.push(s.to_string());
                    }
                }
            }
        }
        Value::Array(a) => {
            for x in a {
                collect_from_postorder(x, out);
            }
        }
        _ => {}
    }
}

/// `A.b.c` made of identifiers only, going through `.prototype`
fn is_static_path(v: &Value) -> bool {
    fn path_ok(v: &Value, seen_proto: &mut bool) -> bool {
        match ty(v) {
            "Identifier" => true,
            // `[].slice`, `''.concat`, `({}).toString`: a fresh literal base, nothing observable either
            "StringLiteral" => {
                *seen_proto = true;
                true
            }
            "ArrayExpression" => {
                *seen_proto = true;
                v["elements"].as_array().map(|a| a.is_empty()).unwrap_or(false)
            }
            "ObjectExpression" => {
                *seen_proto = true;
                v["properties"].as_array().map(|a| a.is_empty()).unwrap_or(false)
            }
            "MemberExpression" => {
                if v["optional"] == json!(true) {
                    return false;
                }
                match ident_name(&v["property"]) {
                    Some(p) => {
                        if p == "prototype" {
                            *seen_proto = true;
                        }
                        path_ok(&v["object"], seen_proto)
                    }
                    None => false,
                }
            }
            _ => false,
        }
    }
    let mut seen = false;
    ty(v) == "MemberExpression" && path_ok(v, &mut seen) && seen
}

fn find_from(v: &Value, name: &str, path: &mut Vec<String>) -> bool {
    match v {
        Value::Object(m) => {
            if let Some(f) = m.get("$from").and_then(|f| f.as_array()) {
                if f.iter().any(|n| n.as_str() == Some(name)) {
                    return true;
                }
            }
            for (k, x) in m {
                if k.starts_with('$') {
                    continue;
                }
                path.push(k.clone());
                if find_from(x, name, path) {
                    return true;
                }
                path.pop();
            }
            false
        }
        Value::Array(a) => {
            for (i, x) in a.iter().enumerate() {
                path.push(format!("[{i}]"));
                if find_from(x, name, path) {
                    return true;
                }
                path.pop();
            }
            false
        }
        _ => false,
    }
}

pub struct Erased {
    /// canonical input tree annotated with `$hook`, `$ospan`
    pub input: Value,
    pub hooks: Vec<Value>,
    pub lets: Vec<Value>,
    pub prologue_found: bool,
    pub prologue_index: Option<usize>,
    pub output_norm: Value,
    pub soft: Vec<EraseError>,
}

/// The whole C02 pipeline: erase(parse(content)) == parse(src) up to normal form.
pub fn round_trip(src_tree: &Value, out_tree: &Value, prefix: &str) -> Result<Erased, EraseError> {
    let mut input = normalize(src_tree);
    let output_norm = normalize(out_tree);
    let mut er = Eraser::new(prefix);
    let mut erased = er.erase_program(&output_norm)?;
    canonicalize(&mut input);
    canonicalize(&mut erased);
    if let Some(d) = first_diff(&input, &erased, "") {
        let sig = classify_diff(&input, &erased).unwrap_or("erased-differs");
        return err(sig, d);
    }
    annotate(&mut input, &erased);
    Ok(Erased { input, hooks: er.hooks, lets: er.lets, prologue_found: er.prologue_found, prologue_index: er.prologue_index, output_norm, soft: er.soft })
}

/// walk to the first differing node and recognise known failure shapes (for specific signatures)
fn classify_diff(a: &Value, b: &Value) -> Option<&'static str> {
    match (a, b) {
        (Value::Object(x), Value::Object(y)) => {
            if ty(a) == "AssignmentExpression" && ty(b) == "AssignmentExpression" && x.get("operator") == Some(&json!("+=")) && y.get("operator") == Some(&json!("=")) {
                let r = &y["right"];
                if ty(r) == "BinaryExpression" && r["operator"] == json!("+") && equal_ignoring_meta(&y["left"], &r["left"]) && equal_ignoring_meta(&x["left"], &y["left"]) {
                    // `T += R` came out as `T = T + R` with a target that is not made of identifiers/literals only
                    return Some("compound-target-evaluated-twice");
                }
            }
            for (k, v) in x {
                if k.starts_with('$') {
                    continue;
                }
                if let Some(w) = y.get(k) {
                    if first_diff(v, w, "").is_some() {
                        return classify_diff(v, w);
                    }
                }
            }
            None
        }
        (Value::Array(x), Value::Array(y)) => {
            if x.len() != y.len() {
                return None;
            }
            for (v, w) in x.iter().zip(y) {
                if first_diff(v, w, "").is_some() {
                    return classify_diff(v, w);
                }
            }
            None
        }
        _ => None,
    }
}
