//! Site predicate on the *input* tree (canonical form, annotated with `$hook` by the round trip):
//! a direct transcription of the C04 / C05 statements. MUST sites need their hook, FORBIDDEN sites
//! must not have one, everything else is FREE (never alarmed).
use crate::cfggen::{CfgInfo, LITERAL_CALLER_METHODS};
use crate::erase::{brief, ident_name, ty};
use serde_json::{json, Value};

#[derive(Clone, Debug, PartialEq, Eq)]
pub enum Expect {
    Must,
    Forbidden,
    Free,
}

#[derive(Clone, Debug)]
pub struct Site {
    pub kind: &'static str, // plus, add-assign, tpl, call, proto, bare
    /// telemetry tag of the operation: "+", "+=", "Tpl" or the method's source name
    pub tag: String,
    /// hook name the configuration prescribes (None when the operation is not enabled)
    pub hook_name: Option<String>,
    pub expect: Expect,
    pub why: String,
    pub hooked: Option<String>,
    pub span: Value,
    pub stmt_kind: String,
    pub text: String,
}

#[derive(Clone, Default)]
struct Cx {
    in_block: bool,
    under_delete: bool,
    in_arrow_param: bool,
    in_tpl_literal_subst: bool,
    stmt_kind: String,
    in_fn_param: bool,
    in_class_field: bool,
}

fn is_literal(v: &Value) -> bool {
    matches!(ty(v), "StringLiteral" | "NumericLiteral" | "BooleanLiteral" | "NullLiteral" | "BigIntLiteral" | "RegExpLiteral")
}

fn is_literal_sum(v: &Value) -> bool {
    is_literal(v) || (ty(v) == "BinaryExpression" && v["operator"] == json!("+") && is_literal_sum(&v["left"]) && is_literal_sum(&v["right"]))
}

fn is_undefined_or_null_ident(v: &Value) -> bool {
    matches!(ident_name(v), Some("undefined") | Some("null"))
}

pub struct SiteWalker<'a> {
    pub cfg: &'a CfgInfo,
    pub sites: Vec<Site>,
}

impl<'a> SiteWalker<'a> {
    pub fn new(cfg: &'a CfgInfo) -> Self {
        SiteWalker { cfg, sites: vec![] }
    }

    pub fn walk_program(&mut self, program: &Value) {
        let cx = Cx { stmt_kind: "top".into(), ..Default::default() };
        self.walk(program, &cx);
    }

    fn hooked(v: &Value) -> Option<String> {
        v.get("$hook").and_then(|h| h["name"].as_str()).map(|s| s.to_string())
    }

    fn push(&mut self, v: &Value, cx: &Cx, kind: &'static str, tag: &str, hook_name: Option<String>, base: Expect, why: &str) {
        // documented exclusions turn MUST into FREE; FORBIDDEN stays (a hook there is wrong wherever it is)
        let mut expect = base;
        let mut why = why.to_string();
        if expect == Expect::Must {
            if !cx.in_block {
                expect = Expect::Free;
                why = "outside any block or function body".into();
            } else if cx.under_delete {
                expect = Expect::Free;
                why = "operand of delete".into();
            } else if cx.in_arrow_param {
                expect = Expect::Free;
                why = "arrow parameter default".into();
            } else if cx.in_tpl_literal_subst {
                expect = Expect::Free;
                why = "nested in a template with a literal substitution".into();
            }
        }
        self.sites.push(Site {
            kind,
            tag: tag.to_string(),
            hook_name,
            expect,
            why,
            hooked: Self::hooked(v),
            span: v.get("$span").cloned().unwrap_or(Value::Null),
            stmt_kind: cx.stmt_kind.clone(),
            text: brief(v),
        });
    }

    fn classify_call(&mut self, v: &Value, cx: &Cx) {
        let callee = &v["callee"];
        let call_optional = v["optional"] == json!(true);
        match ty(callee) {
            "Identifier" => {
                let name = ident_name(callee).unwrap();
                if let Some(m) = self.cfg.method(name) {
                    if m.2 {
                        let base = if call_optional { Expect::Free } else { Expect::Must };
                        // the statement lists bare calls under C05 only ("a bare call not marked allowed ... is left as written")
                        let base = if base == Expect::Must { Expect::Free } else { base };
                        self.push(v, cx, "bare", name, Some(m.1.clone()), base, "bare call of an allowed-without-callee name");
                        return;
                    }
                }
                if v.get("$hook").is_some() {
                    self.push(v, cx, "bare", name, None, Expect::Forbidden, "bare call not marked allowed-without-callee");
                }
            }
            "MemberExpression" => {
                let prop = &callee["property"];
                let Some(m) = ident_name(prop) else {
                    // computed / private method names: documented exclusion
                    if v.get("$hook").is_some() {
                        self.push(v, cx, "call", "?", None, Expect::Free, "computed method name");
                    }
                    return;
                };
                let obj = &callee["object"];
                // X.prototype.m.call / apply
                if (m == "call" || m == "apply") && ty(obj) == "MemberExpression" {
                    if let Some(method) = ident_name(&obj["property"]) {
                        let is_proto_path = ty(&obj["object"]) == "MemberExpression"
                            && ident_name(&obj["object"]["property"]) == Some("prototype")
                            && ty(&obj["object"]["object"]) == "Identifier"
                            && obj["optional"] != json!(true)
                            && obj["object"]["optional"] != json!(true);
                        let identifier_path = is_identifier_path(obj);
                        // `<expression>.prototype.m.call(..)` / `<expression>.m.call(..)` with a base that is not an identifier
                        // (`h(X).prototype.trim.call(a)`, `o[k].q.trim.apply(a, [])`): the rewriter treats it like a path too;
                        // the statement only speaks of `X.prototype.m`, so such a site is FREE - but it is a site of `m`
                        if !identifier_path {
                            if let Some(entry) = self.cfg.method(method) {
                                self.push(v, cx, "proto", method, Some(entry.1.clone()), Expect::Free, "prototype-like path with a base that is not an identifier");
                                return;
                            }
                        }
                        if identifier_path {
                            match self.cfg.method(method) {
                                Some(entry) => {
                                    let args = v["arguments"].as_array().cloned().unwrap_or_default();
                                    let mut base = Expect::Free;
                                    let mut why = "prototype call outside the stated shape";
                                    if is_proto_path && !call_optional && callee["optional"] != json!(true) && !args.is_empty() && args[0]["spread"] != json!(true) {
                                        let this_arg = &args[0]["expression"];
                                        let this_non_literal = !is_literal(this_arg);
                                        // a string-literal receiver is covered for concat / replace / .. when an argument is not a literal
                                        let literal_caller = ty(this_arg) == "StringLiteral" && LITERAL_CALLER_METHODS.contains(&method);
                                        let non_literal = |e: &Value| !e.is_null() && e["spread"] != json!(true) && !is_literal(&e["expression"]) && !is_undefined_or_null_ident(&e["expression"]);
                                        if m == "call" {
                                            if this_non_literal {
                                                base = Expect::Must;
                                                why = "X.prototype.m.call(thisArg, ..)";
                                            } else if literal_caller && args.iter().skip(1).all(|a| a["spread"] != json!(true)) && args.iter().skip(1).any(non_literal) {
                                                base = Expect::Must;
                                                why = "X.prototype.m.call('literal', <non-literal>) of a method covered for literal receivers";
                                            }
                                        } else if args.len() >= 2 && args[1]["spread"] != json!(true) && ty(&args[1]["expression"]) == "ArrayExpression" {
                                            let elems = args[1]["expression"]["elements"].as_array().cloned().unwrap_or_default();
                                            if this_non_literal && elems.iter().all(|e| !e.is_null()) && args.len() == 2 {
                                                base = Expect::Must;
                                                why = "X.prototype.m.apply(thisArg, [..])";
                                            } else if literal_caller && args.len() == 2 && elems.iter().all(|e| !e.is_null() && e["spread"] != json!(true)) && elems.iter().any(non_literal) {
                                                base = Expect::Must;
                                                why = "X.prototype.m.apply('literal', [<non-literal>]) of a method covered for literal receivers";
                                            }
                                        }
                                    }
                                    self.push(v, cx, "proto", method, Some(entry.1.clone()), base, why);
                                    return;
                                }
                                None => {
                                    if v.get("$hook").is_some() {
                                        self.push(v, cx, "proto", method, None, Expect::Forbidden, "method not configured");
                                    }
                                    // fall through: `.call` itself could be a configured method name
                                }
                            }
                        }
                    }
                }
                match self.cfg.method(m) {
                    Some(entry) => {
                        let recv_kind_ok = if obj.get("$paren").is_some() {
                            true
                        } else {
                            match ty(obj) {
                                "Identifier" | "CallExpression" | "ArrayExpression" => true,
                                "MemberExpression" => ident_name(&obj["property"]) != Some("prototype"),
                                _ => false,
                            }
                        };
                        let mut base = Expect::Free;
                        let mut why = "receiver kind not covered";
                        if chain_has_literal_optional_base(callee) {
                            why = "optional chain whose optional link hangs off a literal";
                        } else if callee.get("$paren").is_some() {
                            // `(recv.m)(..)`: the same call, but not one of the forms the statement lists
                            why = "parenthesised callee";
                        } else if call_optional {
                            why = "optional invocation recv.m?.()";
                        } else if recv_kind_ok {
                            base = Expect::Must;
                            why = "recv.m(..) with a configured method";
                        } else if ty(obj) == "StringLiteral" && LITERAL_CALLER_METHODS.contains(&m) {
                            let args = v["arguments"].as_array().cloned().unwrap_or_default();
                            let all_lit = args.iter().all(|a| is_literal(&a["expression"]) || is_undefined_or_null_ident(&a["expression"]));
                            if !all_lit {
                                base = Expect::Must;
                                why = "string literal receiver of concat/replace/replaceAll/padStart/padEnd/repeat";
                            }
                        }
                        // a method call that is a link of an optional chain whose later links include an
                        // optional invocation is still this call; nothing else to exclude here
                        self.push(v, cx, "call", m, Some(entry.1.clone()), base, why);
                    }
                    None => {
                        if v.get("$hook").is_some() {
                            self.push(v, cx, "call", m, None, Expect::Forbidden, "method not configured");
                        }
                    }
                }
            }
            _ => {
                if v.get("$hook").is_some() {
                    self.push(v, cx, "call", "?", None, Expect::Forbidden, "hook on a call that is neither a method call nor a bare call");
                }
            }
        }
    }

    fn walk(&mut self, v: &Value, cx: &Cx) {
        match v {
            Value::Array(a) => {
                for x in a {
                    self.walk(x, cx);
                }
            }
            Value::Object(m) => {
                let t = ty(v);
                let mut cx = cx.clone();
                if t.ends_with("Statement") || t.ends_with("Declaration") {
                    cx.stmt_kind = t.to_string();
                }
                match t {
                    "BinaryExpression" if v["operator"] == json!("+") => {
                        // a sum made of literals only ('a' + 'b' + 1) counts as all-literal
                        let non_lit = !(is_literal_sum(&v["left"]) && is_literal_sum(&v["right"]));
                        match &self.cfg.plus {
                            Some(dst) => {
                                let base = if non_lit { Expect::Must } else { Expect::Free };
                                self.push(v, &cx, "plus", "+", Some(dst.clone()), base, "binary + with a non-literal operand");
                            }
                            None => self.push(v, &cx, "plus", "+", None, Expect::Forbidden, "plus operator not enabled"),
                        }
                    }
                    "AssignmentExpression" if v["operator"] == json!("+=") => {
                        let refolded = v.get("$refolded").is_some();
                        let tag = if refolded { "+" } else { "+=" };
                        let simple = matches!(ty(&v["left"]), "Identifier" | "MemberExpression" | "SuperPropExpression");
                        match &self.cfg.plus {
                            Some(dst) => {
                                let mut base = if simple { Expect::Must } else { Expect::Free };
                                if refolded && is_literal(&v["right"]) && is_literal(&v["left"]) {
                                    base = Expect::Free;
                                }
                                self.push(v, &cx, "add-assign", tag, Some(dst.clone()), base, "+= with a simple target");
                            }
                            None => self.push(v, &cx, "add-assign", tag, None, Expect::Forbidden, "plus operator not enabled"),
                        }
                    }
                    "TemplateLiteral" => {
                        let exprs = v["expressions"].as_array().cloned().unwrap_or_default();
                        let any_lit = exprs.iter().any(is_literal);
                        if !exprs.is_empty() {
                            match &self.cfg.tpl {
                                Some(dst) => {
                                    let base = if any_lit { Expect::Free } else { Expect::Must };
                                    self.push(v, &cx, "tpl", "Tpl", Some(dst.clone()), base, "untagged template, all substitutions non-literal");
                                }
                                None => self.push(v, &cx, "tpl", "Tpl", None, Expect::Forbidden, "template operator not enabled"),
                            }
                        } else if v.get("$hook").is_some() {
                            self.push(v, &cx, "tpl", "Tpl", None, Expect::Forbidden, "template without substitutions");
                        }
                        if any_lit {
                            cx.in_tpl_literal_subst = true;
                        }
                    }
                    "TaggedTemplateExpression" => {
                        // the tag's template is not an untagged template: walk tag and substitutions only
                        self.walk(&v["tag"], &cx);
                        let tpl = &v["template"];
                        if tpl.get("$hook").is_some() {
                            self.push(tpl, &cx, "tpl", "Tpl", None, Expect::Forbidden, "tagged template");
                        }
                        let exprs = tpl["expressions"].as_array().cloned().unwrap_or_default();
                        let mut cx2 = cx.clone();
                        if exprs.iter().any(is_literal) {
                            cx2.in_tpl_literal_subst = true;
                        }
                        for e in &exprs {
                            self.walk(e, &cx2);
                        }
                        return;
                    }
                    "CallExpression" => self.classify_call(v, &cx),
                    "UnaryExpression" if v["operator"] == json!("delete") => {
                        cx.under_delete = true;
                    }
                    "BlockStatement" => {
                        if v.get("$arrowExprBody").is_none() {
                            // every real block is visited on its own wherever it occurs
                            cx.in_block = true;
                            cx.under_delete = false;
                            cx.in_arrow_param = false;
                            cx.in_tpl_literal_subst = false;
                        }
                        // the body of a concise arrow is reached only where the arrow itself is reached:
                        // it inherits the exclusions of its position
                    }
                    "ArrowFunctionExpression" => {
                        let mut pc = cx.clone();
                        pc.in_arrow_param = true;
                        self.walk(&v["params"], &pc);
                        self.walk(&v["body"], &cx);
                        return;
                    }
                    _ => {
                        if v.get("$hook").is_some() && !matches!(t, "BinaryExpression" | "AssignmentExpression") {
                            self.push(v, &cx, "call", "?", None, Expect::Forbidden, "hook on a node that is not an instrumentable operation");
                        } else if v.get("$hook").is_some() {
                            self.push(v, &cx, "plus", "?", None, Expect::Forbidden, "hook on a binary/assignment that is not + / +=");
                        }
                    }
                }
                for (k, x) in m {
                    if k.starts_with('$') {
                        continue;
                    }
                    self.walk(x, &cx);
                }
            }
            _ => {}
        }
    }
}

fn is_identifier_path(v: &Value) -> bool {
    match ty(v) {
        "Identifier" => true,
        // `[].slice.call(x)`, `''.concat.call(x)`: handled like a prototype path
        "ArrayExpression" | "StringLiteral" | "ObjectExpression" => true,
        "MemberExpression" => ident_name(&v["property"]).is_some() && is_identifier_path(&v["object"]),
        _ => false,
    }
}

/// C04 / C05 verdicts over the collected sites
pub fn check_sites(sites: &[Site]) -> Vec<(String, String)> {
    let mut errs = vec![];
    for s in sites {
        match s.expect {
            Expect::Must => match &s.hooked {
                None => errs.push((
                    format!("C04:missed:{}:{}", s.kind, s.stmt_kind),
                    format!("enabled operation not instrumented ({}; in {}): {}", s.why, s.stmt_kind, s.text),
                )),
                Some(h) => {
                    if Some(h) != s.hook_name.as_ref() {
                        errs.push((format!("C05:wrong-hook-name:{}", s.kind), format!("hook {h} used, configuration says {:?}: {}", s.hook_name, s.text)));
                    }
                }
            },
            Expect::Forbidden => {
                if let Some(h) = &s.hooked {
                    errs.push((format!("C05:not-enabled:{}", s.kind), format!("operation not enabled by the configuration was wrapped by {h} ({}): {}", s.why, s.text)));
                }
            }
            Expect::Free => {
                if let (Some(h), Some(n)) = (&s.hooked, &s.hook_name) {
                    if h != n {
                        errs.push((format!("C05:wrong-hook-name:{}", s.kind), format!("hook {h} used, configuration says {n}: {}", s.text)));
                    }
                }
            }
        }
    }
    errs
}

/// `'s'?.p.m()`: walking down the chain, an optional link whose object is a literal
fn chain_has_literal_optional_base(v: &Value) -> bool {
    let mut cur = v;
    loop {
        let t = ty(cur);
        if t != "MemberExpression" && t != "CallExpression" {
            return false;
        }
        let next = if t == "MemberExpression" { &cur["object"] } else { &cur["callee"] };
        if cur["optional"] == json!(true) {
            if is_literal(next) {
                return true;
            }
            // `'s'.p?.()`: the callee's object is what gets hoisted
            if t == "CallExpression" && ty(next) == "MemberExpression" && is_literal(&next["object"]) {
                return true;
            }
        }
        if cur["inChain"] != json!(true) {
            return false;
        }
        cur = next;
    }
}
