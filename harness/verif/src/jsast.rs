//! A small JavaScript expression tree of the generator's own, with a precedence-aware printer.
//! The printer emits `\u{1}` at positions where white space / new lines / comments may be inserted
//! without changing the token stream or triggering ASI (after binary operators, commas and opening
//! brackets); the layout pass of the generator replaces them.
#[derive(Clone, Debug)]
pub enum E {
    Id(String),
    /// literal or other primary expression given as raw text (numbers, strings with quotes, null, regex, this)
    Raw(String),
    Tpl { tag: Option<Box<E>>, quasis: Vec<String>, exprs: Vec<E> },
    Bin(&'static str, Box<E>, Box<E>),
    Assign(&'static str, Box<E>, Box<E>),
    Update { prefix: bool, op: &'static str, arg: Box<E> },
    Unary(&'static str, Box<E>),
    Await(Box<E>),
    Yield { delegate: bool, arg: Option<Box<E>> },
    Cond(Box<E>, Box<E>, Box<E>),
    Seq(Vec<E>),
    Paren(Box<E>),
    Member { obj: Box<E>, prop: String, optional: bool },
    Index { obj: Box<E>, idx: Box<E>, optional: bool },
    Call { callee: Box<E>, args: Vec<Arg>, optional: bool },
    New { callee: Box<E>, args: Vec<Arg> },
    Arrow { params: String, body: ArrowBody, is_async: bool },
    /// function / class expressions and object literals given as text (their inner expressions are
    /// printed by the generator); `needs_paren_at_stmt_start` handled by the statement printer
    Block(String),
    Array(Vec<Option<Arg>>),
}

#[derive(Clone, Debug)]
pub struct Arg {
    pub spread: bool,
    pub e: E,
}

#[derive(Clone, Debug)]
pub enum ArrowBody {
    Expr(Box<E>),
    Block(String),
}

pub const BRK: char = '\u{1}';

fn bin_prec(op: &str) -> u8 {
    match op {
        "**" => 14,
        "*" | "/" | "%" => 13,
        "+" | "-" => 12,
        "<<" | ">>" | ">>>" => 11,
        "<" | ">" | "<=" | ">=" | "in" | "instanceof" => 10,
        "==" | "!=" | "===" | "!==" => 9,
        "&" => 8,
        "^" => 7,
        "|" => 6,
        "&&" => 5,
        "||" | "??" => 4,
        _ => 4,
    }
}

impl E {
    pub fn id(s: &str) -> E {
        E::Id(s.to_string())
    }
    pub fn raw(s: &str) -> E {
        E::Raw(s.to_string())
    }
    pub fn bx(self) -> Box<E> {
        Box::new(self)
    }
    pub fn paren(self) -> E {
        E::Paren(Box::new(self))
    }

    pub fn prec(&self) -> u8 {
        match self {
            E::Id(_) | E::Raw(_) | E::Paren(_) | E::Array(_) | E::Block(_) => 20,
            E::Tpl { tag, .. } => {
                if tag.is_some() {
                    19
                } else {
                    20
                }
            }
            E::Member { .. } | E::Index { .. } | E::Call { .. } | E::New { .. } => 19,
            E::Update { prefix, .. } => {
                if *prefix {
                    15
                } else {
                    16
                }
            }
            E::Unary(..) | E::Await(_) => 15,
            E::Bin(op, ..) => bin_prec(op),
            E::Cond(..) => 3,
            E::Assign(..) | E::Arrow { .. } | E::Yield { .. } => 2,
            E::Seq(_) => 1,
        }
    }

    /// is (or ends its left spine in) an optional chain: such an expression cannot be a template tag,
    /// `new` callee or assignment target
    pub fn has_optional(&self) -> bool {
        match self {
            E::Member { obj, optional, .. } | E::Index { obj, optional, .. } => *optional || obj.has_optional(),
            E::Call { callee, optional, .. } => *optional || callee.has_optional(),
            _ => false,
        }
    }

    fn contains_call_on_spine(&self) -> bool {
        match self {
            E::Call { .. } => true,
            E::Member { obj, .. } | E::Index { obj, .. } => obj.contains_call_on_spine(),
            E::Tpl { tag: Some(t), .. } => t.contains_call_on_spine(),
            _ => false,
        }
    }

    pub fn print(&self) -> String {
        let mut s = String::new();
        self.p(&mut s, 0);
        s
    }

    /// print `self` where an expression of precedence >= `min` is required
    fn p(&self, out: &mut String, min: u8) {
        let need = self.prec() < min;
        if need {
            out.push('(');
        }
        self.p0(out);
        if need {
            out.push(')');
        }
    }

    fn args(out: &mut String, args: &[Arg]) {
        out.push('(');
        out.push(BRK);
        for (i, a) in args.iter().enumerate() {
            if i > 0 {
                out.push(',');
                out.push(BRK);
                out.push(' ');
            }
            if a.spread {
                out.push_str("...");
            }
            a.e.p(out, 2);
        }
        out.push(')');
    }

    fn p0(&self, out: &mut String) {
        match self {
            E::Id(s) | E::Raw(s) | E::Block(s) => out.push_str(s),
            E::Paren(e) => {
                out.push('(');
                out.push(BRK);
                e.p(out, 0);
                out.push(')');
            }
            E::Tpl { tag, quasis, exprs } => {
                if let Some(t) = tag {
                    if t.has_optional() || matches!(**t, E::New { .. }) {
                        out.push('(');
                        t.p(out, 0);
                        out.push(')');
                    } else {
                        t.p(out, 19);
                    }
                }
                out.push('`');
                for (i, q) in quasis.iter().enumerate() {
                    out.push_str(q);
                    if i < exprs.len() {
                        out.push_str("${");
                        out.push(BRK);
                        exprs[i].p(out, 0);
                        out.push('}');
                    }
                }
                out.push('`');
            }
            E::Bin(op, l, r) => {
                let pr = bin_prec(op);
                if *op == "**" {
                    // right associative; a unary expression is not allowed as the left operand
                    let lmin = if matches!(**l, E::Unary(..) | E::Await(_)) { 21 } else { 15 };
                    l.p(out, lmin.max(pr + 1));
                    out.push_str(" ** ");
                    out.push(BRK);
                    r.p(out, pr);
                } else {
                    // `??` cannot be mixed with `&&` / `||` without parentheses
                    let mixes = |e: &E| match e {
                        E::Bin(o, ..) => (*op == "??" && (*o == "&&" || *o == "||")) || ((*op == "&&" || *op == "||") && *o == "??"),
                        _ => false,
                    };
                    if mixes(l) { out.push('('); l.p(out, 0); out.push(')'); } else { l.p(out, pr); }
                    out.push(' ');
                    out.push_str(op);
                    out.push(BRK);
                    out.push(' ');
                    if mixes(r) { out.push('('); r.p(out, 0); out.push(')'); } else { r.p(out, pr + 1); }
                }
            }
            E::Assign(op, l, r) => {
                l.p(out, 16);
                out.push(' ');
                out.push_str(op);
                out.push(BRK);
                out.push(' ');
                r.p(out, 2);
            }
            E::Update { prefix, op, arg } => {
                if *prefix {
                    out.push_str(op);
                    arg.p(out, 16);
                } else {
                    arg.p(out, 17);
                    out.push_str(op);
                }
            }
            E::Unary(op, e) => {
                out.push_str(op);
                let alpha = op.chars().next().map(|c| c.is_ascii_alphabetic()).unwrap_or(false);
                // avoid `- -x`, `+ +x` merging into `--x`
                let clash = match &**e {
                    E::Unary(o2, _) => (*op == "-" && o2.starts_with('-')) || (*op == "+" && o2.starts_with('+')),
                    E::Update { prefix: true, op: o2, .. } => (*op == "-" && *o2 == "--") || (*op == "+" && *o2 == "++"),
                    E::Raw(r) => *op == "-" && r.starts_with('-'),
                    _ => false,
                };
                if alpha || clash {
                    out.push(' ');
                }
                e.p(out, 15);
            }
            E::Await(e) => {
                out.push_str("await ");
                e.p(out, 15);
            }
            E::Yield { delegate, arg } => {
                out.push_str("yield");
                if *delegate {
                    out.push('*');
                }
                if let Some(a) = arg {
                    out.push(' ');
                    a.p(out, 2);
                }
            }
            E::Cond(t, c, a) => {
                t.p(out, 4);
                out.push_str(" ?");
                out.push(BRK);
                out.push(' ');
                c.p(out, 2);
                out.push_str(" :");
                out.push(BRK);
                out.push(' ');
                a.p(out, 2);
            }
            E::Seq(es) => {
                for (i, e) in es.iter().enumerate() {
                    if i > 0 {
                        out.push(',');
                        out.push(BRK);
                        out.push(' ');
                    }
                    e.p(out, 2);
                }
            }
            E::Member { obj, prop, optional } => {
                Self::p_obj(obj, out);
                if *optional {
                    out.push_str("?.");
                } else {
                    out.push('.');
                }
                out.push_str(prop);
            }
            E::Index { obj, idx, optional } => {
                Self::p_obj(obj, out);
                if *optional {
                    out.push_str("?.");
                }
                out.push('[');
                out.push(BRK);
                idx.p(out, 0);
                out.push(']');
            }
            E::Call { callee, args, optional } => {
                match &**callee {
                    // `new X` without arguments as callee would swallow the call's arguments
                    E::New { .. } => callee.p(out, 19),
                    E::Arrow { .. } => callee.p(out, 19),
                    _ => Self::p_obj(callee, out),
                }
                if *optional {
                    out.push_str("?.");
                }
                Self::args(out, args);
            }
            E::New { callee, args } => {
                out.push_str("new ");
                // the callee of `new` may not contain a call on its spine nor an optional chain
                if callee.contains_call_on_spine() || callee.has_optional() || callee.prec() < 19 {
                    out.push('(');
                    callee.p(out, 0);
                    out.push(')');
                } else {
                    callee.p0(out);
                }
                Self::args(out, args);
            }
            E::Arrow { params, body, is_async } => {
                if *is_async {
                    out.push_str("async ");
                }
                out.push_str(params);
                out.push_str(" =>");
                out.push(BRK);
                out.push(' ');
                match body {
                    ArrowBody::Expr(e) => {
                        // a body that starts with `{` would be parsed as a block
                        let mut b = String::new();
                        e.p(&mut b, 2);
                        if b.trim_start_matches(BRK).starts_with('{') {
                            out.push('(');
                            out.push_str(&b);
                            out.push(')');
                        } else {
                            out.push_str(&b);
                        }
                    }
                    ArrowBody::Block(b) => out.push_str(b),
                }
            }
            E::Array(elems) => {
                out.push('[');
                out.push(BRK);
                for (i, el) in elems.iter().enumerate() {
                    if i > 0 {
                        out.push(',');
                        out.push(BRK);
                        out.push(' ');
                    }
                    if let Some(a) = el {
                        if a.spread {
                            out.push_str("...");
                        }
                        a.e.p(out, 2);
                    }
                }
                if matches!(elems.last(), Some(None)) {
                    out.push(',');
                }
                out.push(']');
            }
        }
    }

    fn p_obj(obj: &E, out: &mut String) {
        match obj {
            // number literal receivers need parens (`1.p` is a syntax error)
            E::Raw(r) if r.chars().next().map(|c| c.is_ascii_digit() || c == '-').unwrap_or(false) => {
                out.push('(');
                out.push_str(r);
                out.push(')');
            }
            E::New { .. } => obj.p0(out),
            _ => obj.p(out, 19),
        }
    }

    /// does printing start with a token that is illegal / ambiguous at the start of an expression statement
    pub fn starts_ambiguous(&self) -> bool {
        let s = self.print();
        let s = s.trim_start_matches(BRK);
        s.starts_with('{') || s.starts_with("function") || s.starts_with("class") || s.starts_with("let") || s.starts_with("async function") || s.starts_with("async ")
    }
}
