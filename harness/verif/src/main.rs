use verif::{ast, checks, gen, props_more, rw};

use serde_json::{json, Value};
use std::io::Read;

pub fn default_cfg() -> Value {
    json!({
        "localVarPrefix": "test",
        "telemetryVerbosity": "DEBUG",
        "csiMethods": [
            {"src": "plusOperator", "operator": true},
            {"src": "tplOperator", "operator": true},
            {"src": "substring", "dst": "stringSubstring"},
            {"src": "trim", "dst": "stringTrim"},
            {"src": "concat", "dst": "stringConcat"},
            {"src": "slice"},
            {"src": "replace"},
            {"src": "toLowerCase"},
            {"src": "aloneMethod", "allowedWithoutCallee": true}
        ]
    })
}

fn cmd_rw(args: &[String]) -> i32 {
    let mut cfg = default_cfg();
    let mut file = "/app/src/t.js".to_string();
    let mut path = None;
    let mut i = 0;
    let mut full = false;
    while i < args.len() {
        match args[i].as_str() {
            "--cfg" => { cfg = serde_json::from_str(&args[i + 1]).expect("cfg json"); i += 1; }
            "--file" => { file = args[i + 1].clone(); i += 1; }
            "--full" => full = true,
            p => path = Some(p.to_string()),
        }
        i += 1;
    }
    let mut src = String::new();
    match path.as_deref() {
        None | Some("-") => { std::io::stdin().read_to_string(&mut src).unwrap(); }
        Some(p) => src = std::fs::read_to_string(p).expect("read input"),
    }
    match rw::rewrite_simple(&cfg, &src, &file) {
        rw::Outcome::Ok(v) => {
            println!("STATUS {} metrics={}", v["metrics"]["status"], v["metrics"]);
            let content = v["content"].as_str().unwrap_or("");
            if full { println!("{content}"); } else {
                let body: Vec<&str> = content.lines().filter(|l| !l.starts_with("//# sourceMappingURL=")).collect();
                println!("{}", body.join("\n"));
            }
            if !v["literalsResult"].is_null() { println!("LITS {}", v["literalsResult"]); }
        }
        rw::Outcome::Err(e) => println!("ERR {e}"),
        rw::Outcome::Panic(p) => println!("PANIC {p}"),
    }
    0
}

pub fn xorshift_tape(seed: u64, len: usize) -> Vec<u8> {
    let mut x = seed.wrapping_mul(0x9E3779B97F4A7C15) | 1;
    (0..len).map(|_| { x ^= x << 13; x ^= x >> 7; x ^= x << 17; (x >> 24) as u8 }).collect()
}

fn cmd_gen(args: &[String]) -> i32 {
    let seed: u64 = args.first().and_then(|s| s.parse().ok()).unwrap_or(1);
    let n: u64 = args.get(1).and_then(|s| s.parse().ok()).unwrap_or(1);
    let check = args.iter().any(|a| a == "--check");
    let mut opts = gen::GenOpts::basic();
    opts.layout_noise = args.iter().any(|a| a == "--noise");
    opts.allow_module = args.iter().any(|a| a == "--module");
    if args.iter().any(|a| a == "--static") {
        opts.exec = false;
    }
    let mut bad = 0;
    let mut tags: std::collections::BTreeMap<&str, u32> = Default::default();
    for i in 0..n {
        let tape = xorshift_tape(seed + i, 600);
        let p = gen::gen_program(&tape, &opts);
        for t in &p.tags { *tags.entry(t).or_insert(0) += 1; }
        if check {
            if let Err(e) = ast::parse(&p.src) { bad += 1; if bad <= 5 { println!("PARSE ERROR {e} seed {}\n{}", seed + i, p.src); } }
        } else {
            println!("// ---- seed {} entry {:?} module {}\n{}", seed + i, p.entry, p.module, p.src);
        }
    }
    if check { println!("checked {n} bad {bad}\n{tags:?}"); }
    0
}

fn main() {
    rw::install_panic_hook();
    let args: Vec<String> = std::env::args().skip(1).collect();
    let code = match args.first().map(|s| s.as_str()) {
        Some("rw") => cmd_rw(&args[1..]),
        Some("gen") => cmd_gen(&args[1..]),
        Some("oneshot") => props_more::oneshot_main(),
        // debugging aid: rewrite a file with the default configuration and show what the eraser makes of it
        Some("erase") => {
            let src = std::fs::read_to_string(&args[1]).expect("read input");
            let cfg = verif::cfggen::info_from_json(&default_cfg());
            let a = verif::analysis::analyze(&src, &cfg, "/app/src/t.js");
            match &a.erased {
                Some(Ok(er)) => { println!("ROUND TRIP OK; sites:"); for s in &a.sites { println!("  {:?}", s); } let _ = er; 0 }
                Some(Err(e)) => { println!("ERASE ERROR {}: {}", e.sig, e.detail); 1 }
                None => { println!("not modified / not parsed: {:?}", a.src.as_ref().err()); 0 }
            }
        }
        Some("check") => {
            let id = args.get(1).cloned().unwrap_or_default();
            let tier = args.get(2).cloned().unwrap_or_else(|| "quick".into());
            if let Some(i) = args.iter().position(|a| a == "--replay") {
                checks::replay(&id, &args[i + 1])
            } else {
                checks::run(&id, &tier)
            }
        }
        Some("ast") => { let src = std::fs::read_to_string(&args[1]).unwrap(); match ast::parse(&src) { Ok(p) => { println!("{}", serde_json::to_string_pretty(&p.tree).unwrap()); 0 } Err(e) => { println!("ERR {e}"); 1 } } }
        _ => { eprintln!("usage: verif rw|<Cnn> ..."); 2 }
    };
    std::process::exit(code);
}
