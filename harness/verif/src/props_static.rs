//! C02, C03 (static mirror), C04, C05 (static part): round trip + site predicate on generated programs,
//! on the bounded-exhaustive shape table and on real-world files.
use crate::analysis::{analyze, input_sites, Analysis};
use crate::cfggen::{gen_cfg, info_from_json, CfgInfo, CfgOpts};
use crate::engine::{Check, Ctx, Outcome, Verdict};
use crate::gen::{gen_program_t, GenOpts};
use crate::known;
use crate::rw;
use crate::sites::{check_sites, Expect};
use crate::tape::Tape;
use serde_json::{json, Value};

pub fn opts_for(cfg: &CfgInfo, exec: bool) -> GenOpts {
    let mut o = GenOpts::basic();
    let bare = cfg.bare_names();
    o.methods = cfg.method_names().into_iter().filter(|m| !bare.contains(m)).collect();
    o.bare = bare;
    o.other_methods = cfg.other_names();
    o.exec = exec;
    o.plus_enabled = cfg.plus.is_some();
    o.avoid = known::avoid_flags();
    o
}

/// (cfg, program) case shared by the static properties
pub fn decode_prog_case(tape: &[u8], rich: bool, module: bool, noise: bool) -> Value {
    let mut t = Tape::new(tape);
    let cfg = gen_cfg(&mut t, &CfgOpts { fixed_prefix: true, rich });
    let mut o = opts_for(&cfg, false);
    o.allow_module = module;
    o.layout_noise = noise && t.flag();
    let p = gen_program_t(&mut t, &o);
    let tags: Vec<&str> = p.tags.iter().copied().collect();
    let file = *Tape::new(&tape[tape.len().min(3)..]).pick(&["/app/src/gen.js", "gen.js", "/a b/ñ/gen.js", "./rel/gen.js"]);
    json!({"src": p.src, "cfg": cfg.json, "file": file, "tags": tags, "redirected": p.redirected})
}

pub fn case_parts(case: &Value) -> (String, CfgInfo, String) {
    (
        case["src"].as_str().unwrap_or("").to_string(),
        info_from_json(&case["cfg"]),
        case["file"].as_str().unwrap_or("/app/src/gen.js").to_string(),
    )
}

fn tags_of(case: &Value) -> Vec<String> {
    case["tags"].as_array().map(|a| a.iter().filter_map(|t| t.as_str().map(|s| s.to_string())).collect()).unwrap_or_default()
}

/// which property an eraser failure signature belongs to
pub fn owner_of(sig: &str) -> &'static str {
    if sig.starts_with("hook-args") {
        "C03"
    } else if sig.starts_with("temp-") || sig == "stray-temp-assignment" {
        "C06"
    } else {
        "C02"
    }
}

pub enum Pre {
    /// analysis usable
    Ready(Analysis),
    Done(Outcome),
}

/// common preconditions: input parses independently, rewriter accepted it
pub fn prepare(case: &Value) -> Pre {
    let (src, cfg, file) = case_parts(case);
    if crate::engine::hash_str(&src) % 4 == 0 {
        // one case in four: the same text under the same name has just been seen on this thread by a rewriter with another
        // configuration (one that enables nothing the text contains): that earlier call must not decide anything here
        let other = json!({"localVarPrefix": "test", "literals": false, "csiMethods": [{"src": "methodThatOccursNowhere"}]});
        let _ = rw::rewrite_simple(&other, &src, &file);
    }
    let a = analyze(&src, &cfg, &file);
    if let Err(e) = &a.src {
        return Pre::Done(Outcome::skip(format!("input rejected by the independent parser: {}", e.chars().take(40).collect::<String>())));
    }
    match &a.outcome {
        rw::Outcome::Err(e) => {
            let k = if e.contains("Variable name duplicated") { "rewriter refused (reserved name)" } else { "rewriter returned an error" };
            Pre::Done(Outcome::skip(k))
        }
        rw::Outcome::Panic(_) => Pre::Done(Outcome::skip("rewriter panicked (C13)")),
        rw::Outcome::Ok(_) => Pre::Ready(a),
    }
}

// ------------------------------------------------------------------------------------------ C02

pub struct C02;

impl Check for C02 {
    fn id(&self) -> &'static str {
        "C02"
    }
    fn decode(&self, tape: &[u8], _stream: usize) -> Value {
        decode_prog_case(tape, true, true, true)
    }
    fn rule(&self) -> String {
        "tape -> (configuration, program) by G_cfg x G_prog, plus corpus files; oracle: normal(erase(parse(content))) == normal(parse(src)); \
         non-trivial = distinct (program, cfg) whose output is modified with >= 2 hook sites and >= 1 top level statement or function without any hook"
            .into()
    }
    fn assumptions(&self) -> Vec<String> {
        vec![
            "swc_ecma_parser is trusted to parse input and output".into(),
            "user written `L = L + R` with identifier/literal-only L is identified with `L += R` (the rewriter's output for both is the same by design)".into(),
            "expression-bodied arrows are identified with `{ return e }` arrows".into(),
        ]
    }
    fn eval(&self, case: &Value, _ctx: &mut Ctx) -> Outcome {
        let a = match prepare(case) {
            Pre::Ready(a) => a,
            Pre::Done(o) => return o,
        };
        let mut classes = tags_of(case);
        if !a.outcome.is_modified() {
            classes.push("status:notmodified".into());
            return Outcome::pass(false, classes);
        }
        classes.push("status:modified".into());
        match &a.out {
            Some(Err(e)) => return Outcome::fail("output-unparsable", format!("the output is not accepted by the parser: {e}")),
            None => return Outcome::inconclusive("no output"),
            _ => {}
        }
        match a.erased.as_ref().unwrap() {
            Err(e) => {
                // (a temporary reassigned while a later read still needs it, or read before it is assigned: replacing each use
                // by "the expression assigned to it" does not give back the input - the round trip itself fails)
                if owner_of(&e.sig) == "C02" || e.sig == "temp-clobbered" || e.sig == "temp-read-before-assignment" {
                    Outcome::fail(e.sig.clone(), e.detail.clone())
                } else {
                    Outcome { verdict: Verdict::Skip(format!("blocked by {} ({})", e.sig, owner_of(&e.sig))), nontrivial: false, classes }
                }
            }
            Ok(er) => {
                let hooks = er.hooks.len();
                let untouched = count_unhooked_statements(&er.input);
                Outcome::pass(hooks >= 2 && untouched >= 1, classes)
            }
        }
    }
}

fn has_hook(v: &Value) -> bool {
    match v {
        Value::Object(m) => m.contains_key("$hook") || m.iter().any(|(k, x)| !k.starts_with('$') && has_hook(x)),
        Value::Array(a) => a.iter().any(has_hook),
        _ => false,
    }
}

fn count_unhooked_statements(program: &Value) -> usize {
    fn walk(v: &Value, n: &mut usize) {
        match v {
            Value::Object(m) => {
                if let Some(stmts) = m.get("stmts").and_then(|s| s.as_array()) {
                    for s in stmts {
                        if !has_hook(s) {
                            *n += 1;
                        }
                    }
                }
                for (k, x) in m {
                    if !k.starts_with('$') {
                        walk(x, n);
                    }
                }
            }
            Value::Array(a) => a.iter().for_each(|x| walk(x, n)),
            _ => {}
        }
    }
    let mut n = 0;
    walk(program, &mut n);
    n
}

// ------------------------------------------------------------------------------------------ C03 (static)

pub struct C03Static;

impl Check for C03Static {
    fn id(&self) -> &'static str {
        "C03"
    }
    fn decode(&self, tape: &[u8], _stream: usize) -> Value {
        decode_prog_case(tape, true, false, false)
    }
    fn rule(&self) -> String {
        "static mirror: for every hook call _ddiast.n(A0, A1..Ak) in the output, [A1..Ak] must be exactly the operand leaves of the operation A0 \
         (L,R | substitutions | F,this,args | F,this,array elements | f,undefined,args), each a temporary, identifier or literal; \
         non-trivial = distinct case with >= 1 hook whose operand list contains a temporary assigned an effectful expression, a spread or an apply array"
            .into()
    }
    fn eval(&self, case: &Value, _ctx: &mut Ctx) -> Outcome {
        let a = match prepare(case) {
            Pre::Ready(a) => a,
            Pre::Done(o) => return o,
        };
        let classes = tags_of(case);
        if !a.outcome.is_modified() {
            return Outcome::pass(false, classes);
        }
        let Some(Ok(_)) = &a.out else { return Outcome::skip("output unparsable (C08)") };
        match a.erased.as_ref().unwrap() {
            Err(e) => {
                // a temporary overwritten while a hook still has to read it delivers a wrong operand: C06's finding is C03's too
                if owner_of(&e.sig) == "C03" || e.sig == "temp-clobbered" {
                    Outcome::fail(e.sig.clone(), e.detail.clone())
                } else {
                    Outcome::skip(format!("blocked by {} ({})", e.sig, owner_of(&e.sig)))
                }
            }
            Ok(er) => {
                if let Some(e) = er.soft.first() {
                    return Outcome::fail(e.sig.clone(), e.detail.clone());
                }
                let rich = er.hooks.iter().any(|h| h["kind"] == json!("apply") || h["args"].as_u64().unwrap_or(0) >= 3)
                    || case["tags"].as_array().map(|t| t.iter().any(|x| x == "spread-arg")).unwrap_or(false);
                Outcome::pass(rich && !er.hooks.is_empty(), classes)
            }
        }
    }
}

// ------------------------------------------------------------------------------------------ C04

pub struct C04;

impl Check for C04 {
    fn id(&self) -> &'static str {
        "C04"
    }
    fn decode(&self, tape: &[u8], _stream: usize) -> Value {
        decode_prog_case(tape, true, true, false)
    }
    fn rule(&self) -> String {
        "reference predicate on the input tree (transcription of the statement): every MUST site (enabled +, +=, template, recv.m(), recv?.m(), \
         X.prototype.m.call/apply inside a block or function body, outside the documented exclusions) must carry its hook after the round trip; \
         non-trivial = distinct case with >= 3 MUST sites in >= 2 different statement kinds"
            .into()
    }
    fn assumptions(&self) -> Vec<String> {
        vec![
            "ambiguous placements are FREE: expression body of an arrow outside any block, apply with a non literal array, literal receivers with literal arguments, bare calls, tagged templates".into(),
        ]
    }
    fn eval(&self, case: &Value, _ctx: &mut Ctx) -> Outcome {
        let a = match prepare(case) {
            Pre::Ready(a) => a,
            Pre::Done(o) => return o,
        };
        let classes = tags_of(case);
        let (_, cfg, _) = case_parts(case);
        let sites = if a.outcome.is_modified() {
            let Some(Ok(_)) = &a.out else { return Outcome::skip("output unparsable (C08)") };
            match a.erased.as_ref().unwrap() {
                Err(e) => return Outcome::skip(format!("round trip failed: {} ({})", e.sig, owner_of(&e.sig))),
                Ok(_) => a.sites.clone(),
            }
        } else {
            input_sites(&a.src.as_ref().unwrap().tree, &cfg)
        };
        let errs = check_sites(&sites);
        if let Some((sig, detail)) = errs.iter().find(|(s, _)| s.starts_with("C04:")) {
            return Outcome::fail(sig.clone(), detail.clone());
        }
        let must: Vec<_> = sites.iter().filter(|s| s.expect == Expect::Must).collect();
        let mut kinds: Vec<&str> = must.iter().map(|s| s.stmt_kind.as_str()).collect();
        kinds.sort();
        kinds.dedup();
        let mut classes = classes;
        for s in &must {
            classes.push(format!("must:{}:{}", s.kind, s.stmt_kind));
        }
        Outcome::pass(must.len() >= 3 && kinds.len() >= 2, classes)
    }
}

// ------------------------------------------------------------------------------------------ C05 (static part)

pub struct C05Static;

pub fn c05_static_eval(case: &Value) -> Outcome {
    {
        // "with an empty method list every input is reported not modified": also an input that mentions names with the
        // reserved prefix (nothing is injected, so nothing can clash) - a refusal is not "not modified"
        let (src, cfg, file) = case_parts(case);
        if !cfg.anything_enabled() && crate::ast::parse(&src).is_ok() {
            if let rw::Outcome::Err(e) = rw::rewrite_simple(&cfg.json, &src, &file) {
                if e.contains("Variable name duplicated") {
                    return Outcome::fail("C05:refused-with-empty-config", format!("nothing is enabled by the configuration but the rewrite is refused: {e}"));
                }
            }
        }
    }
    let a = match prepare(case) {
        Pre::Ready(a) => a,
        Pre::Done(o) => return o,
    };
    let classes = tags_of(case);
    let (_, cfg, _) = case_parts(case);
    if !cfg.anything_enabled() {
        return if a.outcome.is_modified() {
            Outcome::fail("C05:modified-with-empty-config", "nothing is enabled by the configuration but the file is reported modified")
        } else {
            Outcome::pass(false, vec!["empty-config".into()])
        };
    }
    if !a.outcome.is_modified() {
        return Outcome::pass(false, classes);
    }
    let Some(Ok(_)) = &a.out else { return Outcome::skip("output unparsable (C08)") };
    match a.erased.as_ref().unwrap() {
        Err(e) => {
            if e.sig == "hook-namespace-left" || e.sig == "hook-shape" || e.sig == "unfolded-without-hook" {
                return Outcome::fail(format!("C05:{}", e.sig), e.detail.clone());
            }
            Outcome::skip(format!("round trip failed: {} ({})", e.sig, owner_of(&e.sig)))
        }
        Ok(er) => {
            // closed world: every hook name is a configured replacement name
            for h in &er.hooks {
                let n = h["name"].as_str().unwrap_or("");
                if !cfg.all_dst.iter().any(|d| d == n) {
                    return Outcome::fail("C05:unconfigured-hook-name", format!("_ddiast.{n} is referenced but no configured entry has that replacement name"));
                }
            }
            let errs = check_sites(&a.sites);
            if let Some((sig, detail)) = errs.iter().find(|(s, _)| s.starts_with("C05:")) {
                return Outcome::fail(sig.clone(), detail.clone());
            }
            let forbidden = a.sites.iter().filter(|s| s.expect == Expect::Forbidden || s.hook_name.is_none()).count();
            let hooked = a.sites.iter().filter(|s| s.hooked.is_some()).count();
            // non-trivial: enabled and non-enabled operations side by side
            let unconfigured_calls = case["tags"].as_array().map(|t| t.iter().any(|x| x == "method-call")).unwrap_or(false);
            Outcome::pass(hooked >= 1 && (forbidden >= 1 || unconfigured_calls) && cfg_is_strict_subset(&cfg), classes)
        }
    }
}

fn cfg_is_strict_subset(cfg: &CfgInfo) -> bool {
    cfg.plus.is_none() || cfg.tpl.is_none() || !cfg.other_names().is_empty()
}

impl Check for C05Static {
    fn id(&self) -> &'static str {
        "C05"
    }
    fn decode(&self, tape: &[u8], _stream: usize) -> Value {
        let mut case = decode_prog_case(tape, false, false, false);
        // one case in five: nothing enabled at all, and the program mentions names with the reserved prefix
        if tape.first().map(|b| b % 5 == 0).unwrap_or(false) {
            let mut t = Tape::new(tape);
            let mut o = opts_for(&info_from_json(&case["cfg"]), false);
            o.reserved_prefix = Some("test".into());
            let p = gen_program_t(&mut t, &o);
            let mut cfg = case["cfg"].clone();
            cfg["csiMethods"] = json!([]);
            cfg["localVarPrefix"] = json!("test");
            let mut tags: Vec<&str> = p.tags.iter().copied().collect();
            tags.push("empty-config-reserved-names");
            case = json!({"src": p.src, "cfg": cfg, "file": case["file"], "tags": tags, "redirected": p.redirected});
        }
        case
    }
    fn rule(&self) -> String {
        "pairs (cfg, program mentioning operations of all pool kinds); oracles: closed world of _ddiast.<name> (only configured dst), hook on a site \
         iff that operation is enabled and with that entry's dst, nothing enabled => not modified, omitted options => documented defaults, prologue \
         executed in three realms; non-trivial = distinct case where the cfg enables a strict subset of the operation kinds and the output has hooks"
            .into()
    }
    fn eval(&self, case: &Value, _ctx: &mut Ctx) -> Outcome {
        c05_static_eval(case)
    }
}
