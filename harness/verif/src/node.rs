//! Client of the persistent Node worker (`/verif/node/worker.js`): JSON lines over stdin/stdout.
use serde_json::Value;
use std::io::{BufRead, BufReader, Write};
use std::process::{Child, ChildStdin, ChildStdout, Command, Stdio};

pub struct Worker {
    child: Child,
    stdin: ChildStdin,
    stdout: BufReader<ChildStdout>,
    pub requests: u64,
}

impl Worker {
    pub fn spawn() -> Result<Worker, String> {
        let mut child = Command::new("node")
            .arg("--experimental-vm-modules")
            .arg("--no-warnings")
            .arg(format!("{}/node/worker.js", crate::engine::verif_root()))
            .stdin(Stdio::piped())
            .stdout(Stdio::piped())
            .stderr(Stdio::inherit())
            .spawn()
            .map_err(|e| format!("cannot start node: {e}"))?;
        let stdin = child.stdin.take().unwrap();
        let stdout = BufReader::new(child.stdout.take().unwrap());
        Ok(Worker { child, stdin, stdout, requests: 0 })
    }

    pub fn request(&mut self, req: &Value) -> Result<Value, String> {
        self.requests += 1;
        let mut line = req.to_string();
        line.push('\n');
        self.stdin.write_all(line.as_bytes()).map_err(|e| format!("worker write: {e}"))?;
        self.stdin.flush().map_err(|e| format!("worker flush: {e}"))?;
        let mut resp = String::new();
        let n = self.stdout.read_line(&mut resp).map_err(|e| format!("worker read: {e}"))?;
        if n == 0 {
            return Err("worker closed its output".into());
        }
        serde_json::from_str(&resp).map_err(|e| format!("worker sent bad json: {e}"))
    }
}

impl Drop for Worker {
    fn drop(&mut self) {
        let _ = self.child.kill();
        let _ = self.child.wait();
    }
}

/// request through the per-thread worker, (re)spawning it when needed
pub fn call(ctx: &mut crate::engine::Ctx, req: &Value) -> Result<Value, String> {
    if ctx.node.is_none() {
        ctx.node = Some(Worker::spawn()?);
    }
    match ctx.node.as_mut().unwrap().request(req) {
        Ok(v) => Ok(v),
        Err(e) => {
            ctx.node = None;
            Err(e)
        }
    }
}
