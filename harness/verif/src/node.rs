//! Client of the persistent Node worker (`/verif/node/worker.js`): JSON lines over stdin/stdout.
use serde_json::Value;
use std::io::{BufRead, BufReader, Write};
use std::process::{Child, ChildStdin, Command, Stdio};
use std::sync::mpsc::{channel, Receiver, RecvTimeoutError};
use std::time::Duration;

pub struct Worker {
    child: Child,
    stdin: ChildStdin,
    lines: Receiver<std::io::Result<String>>,
    pub requests: u64,
}

/// a request that takes longer than this is abandoned (worker killed, case inconclusive)
fn request_timeout() -> Duration {
    Duration::from_secs(std::env::var("VERIF_NODE_TIMEOUT_SECS").ok().and_then(|s| s.parse().ok()).unwrap_or(60))
}

impl Worker {
    pub fn spawn() -> Result<Worker, String> {
        let mut child = Command::new("node")
            .arg("--experimental-vm-modules")
            .arg("--no-warnings")
            // the same program text is compiled for several contexts (original / rewritten run, several realm seeds): with V8's
            // compilation cache a strict-mode assignment to an undeclared global stops throwing from the second context on
            // (Node 20.20; seen as a nondeterministic strictness difference) - every compilation is a fresh one here
            .arg("--no-compilation-cache")
            .arg(format!("{}/node/worker.js", crate::engine::verif_root()))
            .stdin(Stdio::piped())
            .stdout(Stdio::piped())
            .stderr(Stdio::inherit())
            .spawn()
            .map_err(|e| format!("cannot start node: {e}"))?;
        let stdin = child.stdin.take().unwrap();
        let mut stdout = BufReader::new(child.stdout.take().unwrap());
        let (tx, lines) = channel();
        // reader thread: lets `request` wait with a timeout; ends when the worker's output closes
        std::thread::spawn(move || loop {
            let mut resp = String::new();
            match stdout.read_line(&mut resp) {
                Ok(0) => break,
                Ok(_) => {
                    if tx.send(Ok(resp)).is_err() {
                        break;
                    }
                }
                Err(e) => {
                    let _ = tx.send(Err(e));
                    break;
                }
            }
        });
        Ok(Worker { child, stdin, lines, requests: 0 })
    }

    pub fn request(&mut self, req: &Value) -> Result<Value, String> {
        self.requests += 1;
        let mut line = req.to_string();
        line.push('\n');
        self.stdin.write_all(line.as_bytes()).map_err(|e| format!("worker write: {e}"))?;
        self.stdin.flush().map_err(|e| format!("worker flush: {e}"))?;
        let resp = match self.lines.recv_timeout(request_timeout()) {
            Ok(Ok(l)) => l,
            Ok(Err(e)) => return Err(format!("worker read: {e}")),
            Err(RecvTimeoutError::Timeout) => return Err("worker did not answer in time (killed)".into()),
            Err(RecvTimeoutError::Disconnected) => return Err("worker closed its output".into()),
        };
        serde_json::from_str(&resp).map_err(|e| format!("worker sent bad json: {e}"))
    }
}

impl Drop for Worker {
    fn drop(&mut self) {
        let _ = self.child.kill();
        let _ = self.child.wait();
    }
}

/// request through the per-thread worker, (re)spawning it when needed
pub fn call(ctx: &mut crate::engine::Ctx, req: &Value) -> Result<Value, String> {
    if ctx.node.is_none() {
        ctx.node = Some(Worker::spawn()?);
    }
    match ctx.node.as_mut().unwrap().request(req) {
        Ok(v) => Ok(v),
        Err(e) => {
            ctx.node = None;
            Err(e)
        }
    }
}
