//! G_prog: tape -> JavaScript program. A context-aware producer: tracks scope, legality of
//! await / yield / return / break, strictness and script/module kind, so that every emitted program is
//! syntactically valid by construction (re-checked by swc and V8; a generator bug is a harness error).
use crate::jsast::{Arg, ArrowBody, BRK, E};
use crate::tape::Tape;
use std::collections::{BTreeMap, BTreeSet};

/// Trigger classes of *open* known findings, excluded by construction (and counted).
#[derive(Clone, Debug, Default)]
pub struct Avoid {
    /// `o().p += s`, `a[i++] += s`: compound assignment to a member whose object/key is effectful
    pub compound_effectful_target: bool,
    /// optional chain with a configured method nested inside another such chain
    pub nested_opt_chain: bool,
    /// literal-only sum as operand of an instrumented `+` / `+=`
    pub literal_sum_operand: bool,
    /// instrumentable operation inside a parameter default or class field initialiser
    pub instr_in_param_default: bool,
    /// instrumentable operation directly as `if` test / un-braced else / else-if test
    pub if_direct: bool,
    /// directive prologue other than a single leading 'use strict'
    pub multi_directive: bool,
    /// optional call `?.()` whose callee is a member of an inner part of the same optional chain (`a?.m().p?.()`)
    pub opt_call_paren_callee: bool,
    /// `08 .toString()`: printed as `08.toString()` by the dependency's code generator (see the known finding)
    pub legacy_decimal_member: bool,
    /// surplus arguments of `.apply(thisArg, [..], surplus)` in executed programs (see the known finding)
    pub apply_surplus_args: bool,
    /// `super[key()] += s` inside the arguments of `super(..)` (always throws; see the known finding)
    pub super_key_before_super_call: bool,
    /// with the plus operator disabled: a bare `+` expression as operand of an instrumented call / template
    pub plain_sum_operand: bool,
    /// `X.prototype.m.call(..)` where X.prototype.m does not exist
    pub missing_proto_method: bool,
    /// `...1`: spread of a literal that is not iterable
    pub spread_noniterable_literal: bool,
    /// U+FEFF in the middle of (invalid) text: the dependency's diagnostic renderer panics
    pub bom_midfile: bool,
    /// regular expression literal as operand / argument of an instrumented operation (executable programs only)
    pub regex_literal_operand: bool,
    /// a string literal spelled with a lone surrogate escape (`'\uD800abc'`): the dependency keeps the escape as text
    pub lone_surrogate_literal: bool,
}

#[derive(Clone, Debug)]
pub struct GenOpts {
    /// configured (non operator) method names
    pub methods: Vec<String>,
    /// configured names allowed without callee
    pub bare: Vec<String>,
    /// names that are not configured
    pub other_methods: Vec<String>,
    pub allow_module: bool,
    /// programs must terminate and be runnable in the realm
    pub exec: bool,
    pub layout_noise: bool,
    pub avoid: Avoid,
    pub max_stmts: usize,
    pub max_depth: usize,
    /// plant identifiers with this reserved prefix (C06 refusal mode)
    pub reserved_prefix: Option<String>,
    pub file_comment_url: bool,
    pub plus_enabled: bool,
    pub focus_reentrancy: bool,
    pub focus_strictness: bool,
}

impl GenOpts {
    pub fn basic() -> Self {
        GenOpts {
            methods: ["substring", "trim", "concat", "slice", "replace", "toLowerCase"].iter().map(|s| s.to_string()).collect(),
            bare: vec!["aloneMethod".to_string()],
            other_methods: vec!["foo".to_string(), "padStart".to_string(), "bar".to_string()],
            allow_module: false,
            exec: true,
            layout_noise: false,
            avoid: Avoid::default(),
            max_stmts: 6,
            max_depth: 4,
            reserved_prefix: None,
            file_comment_url: false,
            plus_enabled: true,
            focus_reentrancy: false,
            focus_strictness: false,
        }
    }
}

#[derive(Clone, Debug, PartialEq, Eq)]
pub enum EntryKind {
    Sync,
    Async,
    Generator,
}

#[derive(Clone, Debug)]
pub struct Prog {
    pub src: String,
    pub tags: BTreeSet<&'static str>,
    pub entry: EntryKind,
    pub module: bool,
    pub redirected: BTreeMap<&'static str, u32>,
}

#[derive(Clone)]
struct Scope {
    vars: Vec<String>,
    assignable: Vec<String>,
    fns: Vec<String>,
    in_async: bool,
    in_gen: bool,
    in_fn: bool,
    loop_depth: usize,
    labels: Vec<String>,
    in_arrow_default: bool,
    in_class_field: bool,
    this_ok: bool,
    /// inside a class member (or an arrow nested in one): `super.p` is legal
    super_ok: bool,
}

pub struct Gen<'t, 'a> {
    t: &'t mut Tape<'a>,
    o: &'t GenOpts,
    scopes: Vec<Scope>,
    counter: usize,
    pub tags: BTreeSet<&'static str>,
    pub redirected: BTreeMap<&'static str, u32>,
    opt_chain_depth: usize,
    helpers: Vec<String>,
    budget: isize,
}

const STRINGS: &[&str] = &[
    "'s'", "\"a literal longer than ten\"", "''", "'h\\u00e9llo w\\u00f6rld'", "\"two\\nlines\"", "'caf\u{e9} \u{1F600}'", "\"it's\"", "'0'",
    "'another quite long literal'",
    // text that the printer must keep escaped: a backslash before `uD83D` next to a non-ASCII character, a backquote and
    // `${` (both end up inside template literals as literal substitutions), escapes that cannot be printed raw
    "'[\u{e9}\\\\uD83D\\\\uDE00]'", "'`'", "'${'", "'\\u{1F600}\\x41\\0'", "\"\u{20ac}\\\\\"", "'ls\\u2028ps\\u2029end'",
];
const NUMS: &[&str] = &["1", "0", "2", "10", "1.5", "0x10", "1e3", "1_000", "0b101", "0o17", ".5", "5."];
const OTHER_LITS: &[&str] = &["null", "true", "false", "1n", "/re/g", "/a+b/", "undefined"];
// no `name`: an anonymous function hoisted into a temporary is named after it (the property tolerates the injected names)
// two names end in a multi-byte character: an operand that ends there has its last byte inside a character
const PROPS: &[&str] = &["p", "q", "k", "length", "nm", "prototype", "\u{e9}", "k\u{540d}"];
const GLOBAL_VALS: &[&str] = &["g", "s", "o"];

impl<'t, 'a> Gen<'t, 'a> {
    pub fn new(t: &'t mut Tape<'a>, o: &'t GenOpts) -> Self {
        Gen {
            t,
            o,
            scopes: vec![],
            counter: 0,
            tags: BTreeSet::new(),
            redirected: BTreeMap::new(),
            opt_chain_depth: 0,
            helpers: vec![],
            budget: 400,
        }
    }

    fn sc(&self) -> &Scope {
        self.scopes.last().unwrap()
    }
    fn scm(&mut self) -> &mut Scope {
        self.scopes.last_mut().unwrap()
    }
    fn fresh(&mut self, base: &str) -> String {
        self.counter += 1;
        format!("{}{}", base, self.counter)
    }
    fn tag(&mut self, t: &'static str) {
        self.tags.insert(t);
    }
    fn redirect(&mut self, k: &'static str) {
        *self.redirected.entry(k).or_insert(0) += 1;
    }

    // ---------------------------------------------------------------- leaves

    fn ident(&mut self) -> E {
        // rarely an unresolvable reference: reading it throws, which makes evaluation order observable
        if self.o.exec && self.t.chance(6) {
            self.tag("unresolvable-ident");
            return E::id("undeclaredIdent");
        }
        let sc = self.sc();
        let n = sc.vars.len() + GLOBAL_VALS.len();
        let i = self.t.below(n);
        let sc = self.sc();
        if i < sc.vars.len() {
            E::Id(sc.vars[i].clone())
        } else {
            E::id(GLOBAL_VALS[i - sc.vars.len()])
        }
    }

    fn assignable_ident(&mut self) -> E {
        let n = self.sc().assignable.len();
        if n == 0 {
            return E::id("x");
        }
        let i = self.t.below(n);
        E::Id(self.sc().assignable[i].clone())
    }

    fn string_lit(&mut self) -> E {
        E::raw(*self.t.pick(STRINGS))
    }

    fn literal(&mut self) -> E {
        match self.t.weighted(&[5, 3, 2]) {
            0 => self.string_lit(),
            1 => E::raw(*self.t.pick(NUMS)),
            _ => {
                let l = *self.t.pick(OTHER_LITS);
                if l.starts_with('/') && self.o.exec && self.o.avoid.regex_literal_operand {
                    self.redirect("regex_literal_operand");
                    E::raw("null")
                } else {
                    E::raw(l)
                }
            }
        }
    }

    fn leaf(&mut self) -> E {
        match self.t.weighted(&[7, 3, 0]) {
            0 => self.ident(),
            _ => self.literal(),
        }
    }

    fn method_name(&mut self) -> String {
        if self.t.chance(8) {
            // a method that merely has the name of an operator entry
            return self.t.pick(&["plusOperator", "tplOperator"]).to_string();
        }
        // configured names weigh more
        let nm = self.o.methods.len();
        let no = self.o.other_methods.len();
        if nm > 0 && (no == 0 || self.t.weighted(&[3, 1]) == 0) {
            self.o.methods[self.t.below(nm)].clone()
        } else if no > 0 {
            self.o.other_methods[self.t.below(no)].clone()
        } else {
            "foo".to_string()
        }
    }

    fn configured(&self, m: &str) -> bool {
        self.o.methods.iter().any(|x| x == m)
    }

    fn args(&mut self, d: usize) -> Vec<Arg> {
        let n = self.t.weighted(&[3, 4, 2, 1]);
        let mut v = vec![];
        for _ in 0..n {
            let mut spread = self.t.chance(30);
            let e = self.expr(d);
            if spread && self.o.avoid.spread_noniterable_literal && matches!(&e, E::Raw(r) if !r.starts_with('\'') && !r.starts_with('"')) {
                self.redirect("spread_noniterable_literal");
                spread = false;
            }
            if spread {
                self.tag("spread-arg");
            }
            v.push(Arg { spread, e });
        }
        v
    }

    // ---------------------------------------------------------------- expressions

    pub fn expr(&mut self, d: usize) -> E {
        self.budget -= 1;
        if d == 0 || self.budget <= 0 {
            return self.leaf();
        }
        let d1 = d - 1;
        // alternative 0 must be a leaf (exhausted tape)
        let w: [u32; 28] = [
            10, // 0 leaf
            22, // 1 a + b
            5,  // 2 other binary
            8,  // 3 template
            14, // 4 method call
            8,  // 5 optional chain method call
            4,  // 6 prototype call/apply
            5,  // 7 plain call
            4,  // 8 member
            2,  // 9 index
            5,  // 10 assignment (=, +=, -=, ??=)
            3,  // 11 member compound assignment
            3,  // 12 conditional
            2,  // 13 sequence (parenthesised)
            3,  // 14 logical
            3,  // 15 arrow IIFE / arrow value
            3,  // 16 unary
            2,  // 17 update
            2,  // 18 array literal
            2,  // 19 object literal
            2,  // 20 new
            2,  // 21 bare allowed call
            2,  // 22 await / yield when legal
            2,  // 23 paren
            2,  // 24 `in` (parenthesised: legal in a for head too)
            2,  // 25 tagged template whose tag is an operation / a member
            1,  // 26 new.target
            2,  // 27 super.m(..)
        ];
        match self.t.weighted(&w) {
            0 => self.leaf(),
            1 => self.plus(d1),
            2 => {
                let op = *self.t.pick(&["-", "*", "/", "%", "==", "===", "!=", "<", ">", "&", "|", "**", "instanceof", "<<"]);
                let l = self.expr(d1);
                let r = self.expr(d1);
                E::Bin(op, l.bx(), r.bx())
            }
            3 => self.template(d1),
            4 => self.method_call(d1),
            5 => self.opt_chain(d1),
            6 => self.proto_call(d1),
            7 => {
                let callee = match self.t.weighted(&[6, 4, 2, 1, 1]) {
                    0 => E::id("h"),
                    1 => self.local_fn_or_h(),
                    2 => self.ident(),
                    3 => {
                        // `(0, recv.m)(args)`: what transpilers emit for imported bindings - a call WITHOUT receiver
                        self.tag("indirect-call");
                        let recv = self.ident();
                        let m = self.method_name();
                        E::Seq(vec![E::raw("0"), E::Member { obj: recv.bx(), prop: m, optional: false }]).paren()
                    }
                    _ => {
                        // `(recv.m)(args)`: the parentheses change nothing, the receiver stays
                        self.tag("paren-member-callee");
                        let recv = self.receiver(d1.min(1));
                        let m = self.method_name();
                        E::Member { obj: recv.bx(), prop: m, optional: false }.paren()
                    }
                };
                let args = self.args(d1);
                E::Call { callee: callee.bx(), args, optional: false }
            }
            8 => {
                let obj = self.receiver(d1);
                let prop = self.t.pick(PROPS).to_string();
                E::Member { obj: obj.bx(), prop, optional: false }
            }
            9 => {
                let obj = self.receiver(d1);
                let idx = if self.t.chance(30) {
                    self.tag("bare-sequence");
                    let a = self.expr(d1.min(2));
                    let b = self.expr(d1.min(2));
                    E::Seq(vec![a, b])
                } else {
                    self.expr(d1)
                };
                E::Index { obj: obj.bx(), idx: idx.bx(), optional: false }
            }
            10 => {
                let op = *self.t.pick(&["+=", "=", "+=", "-=", "??=", "+=", "||=", "&&=", "**="]);
                let mut target = self.assignable_ident();
                if op == "+=" && self.t.chance(12) {
                    // `s += x => x + 1`: an arrow function is a legal right-hand side as it stands
                    self.tag("add-assign-arrow");
                    let p = self.fresh("p");
                    self.push_fn_scope(&[p.clone()], false, false, true);
                    let body = self.plus(1);
                    self.scopes.pop();
                    let body_text = if body.starts_ambiguous() { format!("({})", body.print()) } else { body.print() };
                    return E::Assign("+=", target.bx(), E::Raw(format!("{p} => {body_text}")).bx()).paren();
                }
                if self.t.chance(20) {
                    // `(x) += v`: a parenthesised identifier is a legal target too
                    self.tag("paren-target");
                    target = target.paren();
                }
                let r = self.expr(d1);
                if op == "+=" {
                    self.tag("add-assign-ident");
                }
                E::Assign(op, target.bx(), self.guard_literal_sum(r).bx()).paren()
            }
            11 => self.member_assign(d1),
            12 => {
                let t = self.expr(d1);
                self.tag("conditional");
                if self.t.chance(110) {
                    // else-if chain `c1 ? A : c2 ? B : C` (or nested in the first branch) with instrumented branches,
                    // typically used as an operand: temporaries of the branches and of the enclosing operation interleave
                    self.tag("conditional-chain");
                    let a = self.method_call(d1.min(2));
                    let t2 = self.leaf();
                    let b = if self.t.flag() { self.plus(d1.min(1)) } else { self.leaf() };
                    let c = if self.t.flag() { self.method_call(d1.min(1)) } else { self.leaf() };
                    let inner = E::Cond(t2.bx(), b.bx(), c.bx());
                    let chain = if self.t.chance(190) { E::Cond(t.bx(), a.bx(), inner.bx()) } else { E::Cond(t.bx(), inner.bx(), a.bx()) };
                    return if self.t.flag() {
                        let l = self.method_call(d1.min(1));
                        let sum = E::Bin("+", l.bx(), E::Paren(chain.bx()).bx());
                        if !self.o.plus_enabled && self.o.avoid.plain_sum_operand {
                            self.redirect("plain_sum_operand");
                            E::Paren(sum.bx())
                        } else {
                            sum
                        }
                    } else {
                        chain
                    };
                }
                let c = self.expr(d1);
                let a = self.expr(d1);
                E::Cond(t.bx(), c.bx(), a.bx())
            }
            13 => {
                let a = self.expr(d1);
                let b = self.expr(d1);
                E::Seq(vec![a, b]).paren()
            }
            14 => {
                let op = *self.t.pick(&["||", "&&", "??"]);
                let l = self.expr(d1);
                let r = self.expr(d1);
                self.tag("logical");
                E::Bin(op, l.bx(), r.bx())
            }
            15 => self.arrow_use(d1),
            16 => {
                let op = *self.t.pick(&["typeof", "!", "-", "void", "+", "~", "delete"]);
                if op == "delete" {
                    // only member operands (identifier operands are illegal in strict code)
                    let obj = if self.t.chance(60) {
                        // `delete a?.m(x).p`: the operand continues an optional chain that holds a configured method
                        self.tag("delete-opt-chain");
                        self.opt_chain(d1.min(1))
                    } else {
                        self.receiver(d1)
                    };
                    let inner = if self.t.flag() {
                        E::Member { obj: obj.bx(), prop: "p".into(), optional: false }
                    } else {
                        let idx = self.expr(d1);
                        E::Index { obj: obj.bx(), idx: idx.bx(), optional: false }
                    };
                    self.tag("delete");
                    E::Unary("delete", inner.bx())
                } else {
                    let e = self.expr(d1);
                    E::Unary(op, e.bx())
                }
            }
            17 => {
                let arg = self.assignable_ident();
                E::Update { prefix: self.t.flag(), op: if self.t.flag() { "++" } else { "--" }, arg: arg.bx() }
            }
            18 => {
                let n = self.t.below(4);
                let mut elems = vec![];
                for _ in 0..n {
                    if self.t.chance(20) {
                        elems.push(None);
                    } else {
                        let mut spread = self.t.chance(25);
                        let e = self.expr(d1);
                        if spread && self.o.avoid.spread_noniterable_literal && matches!(&e, E::Raw(r) if !r.starts_with('\'') && !r.starts_with('"')) {
                            spread = false;
                        }
                        elems.push(Some(Arg { spread, e }));
                    }
                }
                E::Array(elems)
            }
            19 => {
                if self.t.chance(40) {
                    // a class expression used as an operand: its static members are evaluated right there
                    self.tag("class-expression-operand");
                    let mut sc = self.sc().clone();
                    sc.in_class_field = true;
                    sc.this_ok = true;
                    sc.in_async = false;
                    sc.in_gen = false;
                    self.scopes.push(sc);
                    let a = E::Call { callee: self.local_fn_or_h().bx(), args: vec![Arg { spread: false, e: self.ident() }], optional: false };
                    let b = E::Call { callee: self.local_fn_or_h().bx(), args: vec![Arg { spread: false, e: self.ident() }], optional: false };
                    self.scopes.pop();
                    if self.o.avoid.instr_in_param_default {
                        // (the open finding about initialisers sharing the enclosing block's temporaries covers instance
                        // fields; static members run once, in place, and are generated)
                    }
                    return E::Member { obj: E::Raw(format!("(class {{ static s = {} + {}; static [{}]() {{ return 1; }} }})", a.print(), b.print(), a.print())).bx(), prop: "s".into(), optional: false };
                }
                self.object_lit(d1)
            }
            20 => {
                let callee = if self.t.chance(40) {
                    // `new (a + b).constructor(x)`: the parentheses decide what is constructed
                    self.tag("new-paren-callee");
                    let op = if self.t.flag() { self.plus(d1.min(1)) } else { self.method_call(d1.min(1)) };
                    E::Member { obj: op.paren().bx(), prop: "constructor".into(), optional: false }
                } else if self.t.flag() {
                    E::id("K")
                } else {
                    self.ident()
                };
                let args = self.args(d1);
                self.tag("new");
                E::New { callee: callee.bx(), args }
            }
            21 => {
                if !self.o.exec && self.t.chance(50) {
                    // a configured method that is NOT allowed without callee, called bare: never instrumented
                    self.tag("bare-call-not-allowed");
                    let n = self.method_name();
                    let args = self.args(d1);
                    return E::Call { callee: E::Id(n).bx(), args, optional: false };
                }
                if self.o.bare.is_empty() {
                    return self.leaf();
                }
                let n = self.o.bare[self.t.below(self.o.bare.len())].clone();
                if n == "eval" {
                    return self.direct_eval();
                }
                if self.t.chance(40) {
                    // `aloneMethod.call(ctx, a)` / `.apply(ctx, [a])`: not a bare call (it has a receiver), nothing configured names it
                    self.tag("bare-name-call-apply");
                    let ctx = self.ident();
                    let inner = self.args(d1);
                    return if self.t.flag() {
                        let mut a = vec![Arg { spread: false, e: ctx }];
                        a.extend(inner);
                        E::Call { callee: E::Member { obj: E::Id(n).bx(), prop: "call".into(), optional: false }.bx(), args: a, optional: false }
                    } else {
                        let elems: Vec<Option<Arg>> = inner.into_iter().map(Some).collect();
                        E::Call { callee: E::Member { obj: E::Id(n).bx(), prop: "apply".into(), optional: false }.bx(), args: vec![Arg { spread: false, e: ctx }, Arg { spread: false, e: E::Array(elems) }], optional: false }
                    };
                }
                let args = self.args(d1);
                self.tag("bare-call");
                E::Call { callee: E::Id(n).bx(), args, optional: false }
            }
            22 => {
                let sc = self.sc().clone();
                if sc.in_arrow_default || sc.in_class_field {
                    return self.leaf();
                }
                if sc.in_async && (self.t.flag() || !sc.in_gen) {
                    let e = self.expr(d1);
                    self.tag("await");
                    E::Await(e.bx())
                } else if sc.in_gen {
                    let e = self.expr(d1);
                    self.tag("yield");
                    E::Yield { delegate: false, arg: Some(e.bx()) }.paren()
                } else {
                    self.leaf()
                }
            }
            24 => {
                self.tag("in-operator");
                let l = self.expr(d1);
                let r = self.expr(d1);
                E::Bin("in", l.bx(), r.bx()).paren()
            }
            25 => {
                // `a.trim()`x${b}``, `o.concat`x``: the tag is evaluated like a callee, the template is not an untagged one
                self.tag("tagged-template");
                self.tag("tag-is-operation");
                let tag = match self.t.below(3) {
                    0 => self.method_call(d1.min(2)),
                    1 => {
                        let o = self.ident();
                        E::Member { obj: o.bx(), prop: self.method_name(), optional: false }
                    }
                    _ => self.plus(d1.min(1)).paren(),
                };
                let sub = self.expr(d1.min(2));
                E::Tpl { tag: Some(tag.bx()), quasis: vec![self.quasi(), self.quasi()], exprs: vec![sub] }
            }
            26 => {
                if !self.sc().this_ok {
                    return self.leaf();
                }
                // `new.target`: a primary expression that is neither identifier nor literal, as receiver / operand
                self.tag("new-target");
                let nt = E::Member { obj: E::Raw("new".into()).bx(), prop: "target".into(), optional: false };
                match self.t.below(3) {
                    0 => nt,
                    1 => {
                        let m = self.method_name();
                        let args = self.args(d1.min(1));
                        E::Call { callee: E::Member { obj: E::Member { obj: nt.bx(), prop: "nm".into(), optional: self.t.flag() }.bx(), prop: m, optional: false }.bx(), args, optional: false }
                    }
                    _ => {
                        let r = self.expr(d1.min(1));
                        let sum = E::Bin("+", nt.bx(), r.bx());
                        if !self.o.plus_enabled && self.o.avoid.plain_sum_operand {
                            // (known finding: with the plus operator disabled a sum must not be the operand of an instrumented operation)
                            self.redirect("plain_sum_operand");
                            sum.paren()
                        } else {
                            sum
                        }
                    }
                }
            }
            27 => {
                if !self.sc().super_ok {
                    return self.leaf();
                }
                // `super.trim(x)`: `super` is not a value, the call cannot be re-dispatched through a temporary
                self.tag("super-method-call");
                let m = self.method_name();
                let args = self.args(d1);
                let call = E::Call { callee: E::Member { obj: E::Raw("super".into()).bx(), prop: m, optional: false }.bx(), args, optional: false };
                if self.t.flag() {
                    let m2 = self.method_name();
                    E::Call { callee: E::Member { obj: call.bx(), prop: m2, optional: self.t.chance(60) }.bx(), args: vec![], optional: false }
                } else {
                    call
                }
            }
            _ => {
                let e = self.expr(d1);
                E::Paren(e.bx())
            }
        }
    }

    fn is_literal_sum(e: &E) -> bool {
        match e {
            E::Bin("+", l, r) => Self::is_lit_or_sum(l) && Self::is_lit_or_sum(r),
            _ => false,
        }
    }
    fn is_lit_or_sum(e: &E) -> bool {
        match e {
            E::Raw(r) => r != "undefined" && r != "this",
            E::Tpl { tag: None, exprs, .. } => exprs.is_empty(),
            _ => Self::is_literal_sum(e),
        }
    }

    /// known finding: literal-only sum as operand of an instrumented `+`
    fn guard_literal_sum(&mut self, e: E) -> E {
        if self.o.avoid.literal_sum_operand && Self::is_literal_sum(&e) {
            self.redirect("literal_sum_operand");
            return E::Paren(e.bx());
        }
        e
    }

    fn plus(&mut self, d: usize) -> E {
        // operand shapes: identifiers, literals, literal-only sums, calls, nested instrumented operations
        let l = match self.t.weighted(&[4, 2, 1, 6]) {
            0 => self.ident(),
            1 => self.literal(),
            2 => {
                self.tag("literal-sum");
                let a = self.literal();
                let b = self.literal();
                E::Bin("+", a.bx(), b.bx())
            }
            _ => self.expr(d),
        };
        let r = match self.t.weighted(&[4, 2, 1, 6, 2]) {
            0 => self.ident(),
            1 => self.literal(),
            2 => {
                self.tag("literal-sum");
                let a = self.literal();
                let b = self.literal();
                E::Bin("+", a.bx(), b.bx())
            }
            4 => {
                // a unary operator applied directly to an identifier: it runs the operand's coercion, i.e. code
                self.tag("unary-ident-operand");
                let op = *self.t.pick(&["-", "+", "~"]);
                let v = self.ident();
                if self.t.flag() { E::Unary(op, v.bx()) } else { E::Unary(op, v.bx()).paren() }
            }
            _ => self.expr(d),
        };
        self.tag("plus");
        let l = self.guard_literal_sum(l);
        // a right operand that is itself a sum needs parentheses anyway (printer adds them), guard it too
        let r = self.guard_literal_sum(r);
        if !self.o.plus_enabled && self.o.avoid.plain_sum_operand {
            self.redirect("plain_sum_operand");
            return E::Paren(E::Bin("+", l.bx(), r.bx()).bx());
        }
        E::Bin("+", l.bx(), r.bx())
    }

    fn quasi(&mut self) -> String {
        self.t.pick(&["", "q", " w ", "caf\u{e9} ", "\\n", "line1\nline2 ", "$", "\\u00e9", "{}", "\u{20ac}\\x24{n}", "\u{ab}\\x60", "\\x5c\u{e9}", "\\`", "\\${", "\u{e9}\\\\", "ls\\u2028ps\\u2029"]).to_string()
    }

    fn template(&mut self, d: usize) -> E {
        let n = self.t.weighted(&[1, 5, 3, 1]);
        let mut quasis = vec![self.quasi()];
        let mut exprs = vec![];
        for _ in 0..n {
            let e = if self.t.chance(40) {
                self.tag("tpl-literal-subst");
                self.literal()
            } else if self.t.chance(25) {
                // `${a, b}`: a comma expression needs no parentheses here
                self.tag("bare-sequence");
                let a = self.expr(d.min(2));
                let b = self.expr(d.min(2));
                E::Seq(vec![a, b])
            } else {
                self.expr(d)
            };
            exprs.push(e);
            quasis.push(self.quasi());
        }
        let tag = if self.t.chance(30) {
            self.tag("tagged-template");
            Some(E::id("h").bx())
        } else {
            None
        };
        self.tag("template");
        E::Tpl { tag, quasis, exprs }
    }

    fn receiver(&mut self, d: usize) -> E {
        match self.t.weighted(&[8, 4, 4, 3, 2, 2, 1, 1, 1]) {
            0 => self.ident(),
            1 => {
                let o = self.ident();
                E::Member { obj: o.bx(), prop: self.t.pick(PROPS).to_string(), optional: false }
            }
            2 => {
                let a = self.args(d);
                let c = if self.t.flag() { E::id("h") } else { self.ident() };
                self.tag("recv-call");
                E::Call { callee: c.bx(), args: a, optional: false }
            }
            3 => {
                self.tag("recv-paren");
                let e = self.expr(d);
                E::Paren(e.bx())
            }
            4 => {
                self.tag("recv-array");
                let a = self.args(d);
                E::Array(a.into_iter().map(Some).collect())
            }
            5 => {
                self.tag("recv-string-lit");
                self.string_lit()
            }
            6 => {
                self.tag("recv-this");
                if self.sc().this_ok {
                    E::raw("this")
                } else {
                    self.ident()
                }
            }
            7 => {
                let o = self.ident();
                let i = if self.t.chance(30) {
                    self.tag("computed-prototype-key");
                    E::raw("\"prototype\"")
                } else {
                    self.expr(d)
                };
                self.tag("recv-index");
                E::Index { obj: o.bx(), idx: i.bx(), optional: false }
            }
            _ => {
                self.tag("recv-template");
                self.template(d)
            }
        }
    }

    fn method_call(&mut self, d: usize) -> E {
        let recv = self.receiver(d);
        let m = self.method_name();
        let args = self.args(d);
        self.tag("method-call");
        if self.t.chance(20) {
            // computed method name: documented exclusion
            self.tag("computed-method");
            return E::Call {
                callee: E::Index { obj: recv.bx(), idx: E::Raw(format!("'{}'", m)).bx(), optional: false }.bx(),
                args,
                optional: false,
            };
        }
        E::Call { callee: E::Member { obj: recv.bx(), prop: m, optional: false }.bx(), args, optional: false }
    }

    fn opt_chain(&mut self, d: usize) -> E {
        if self.o.avoid.nested_opt_chain && self.opt_chain_depth > 0 {
            self.redirect("nested_opt_chain");
            return self.method_call(d);
        }
        self.opt_chain_depth += 1;
        self.tag("opt-chain");
        let base = self.receiver(d);
        let m = self.method_name();
        let args = self.args(d);
        let p = self.t.pick(PROPS).to_string();
        let base = if self.t.chance(12) {
            self.tag("opt-chain-null-base");
            E::raw(*self.t.pick(&["null", "undefined", "'lit'"]))
        } else {
            base
        };
        let e = match self.t.weighted(&[6, 3, 3, 2, 2, 2, 2, 2, 3, 2, 2]) {
            // a?.p.m.call(x, args) / a?.m.apply(x) / a?.p.m.apply(x, arr): `.call` / `.apply` of a configured method on a chain
            10 => {
                self.tag("opt-chain-call-apply");
                let this_arg = self.ident();
                let path = if self.t.flag() {
                    E::Member { obj: E::Member { obj: base.bx(), prop: p, optional: true }.bx(), prop: m, optional: false }
                } else {
                    E::Member { obj: base.bx(), prop: m, optional: true }
                };
                match self.t.below(5) {
                    0 => {
                        let mut a = vec![Arg { spread: false, e: this_arg }];
                        a.extend(args);
                        E::Call { callee: E::Member { obj: path.bx(), prop: "call".into(), optional: false }.bx(), args: a, optional: false }
                    }
                    1 => E::Call { callee: E::Member { obj: path.bx(), prop: "call".into(), optional: false }.bx(), args: vec![], optional: false },
                    2 => E::Call { callee: E::Member { obj: path.bx(), prop: "apply".into(), optional: false }.bx(), args: vec![Arg { spread: false, e: this_arg }], optional: false },
                    3 => {
                        let arr = self.ident();
                        E::Call { callee: E::Member { obj: path.bx(), prop: "apply".into(), optional: false }.bx(), args: vec![Arg { spread: false, e: this_arg }, Arg { spread: false, e: arr }], optional: false }
                    }
                    _ => {
                        let elems: Vec<Option<Arg>> = args.into_iter().map(Some).collect();
                        E::Call { callee: E::Member { obj: path.bx(), prop: "apply".into(), optional: false }.bx(), args: vec![Arg { spread: false, e: this_arg }, Arg { spread: false, e: E::Array(elems) }], optional: false }
                    }
                }
            }
            // a?.m(args).m2(args2): two configured calls in one chain
            8 => {
                let m2 = self.method_name();
                let a2 = self.args(d.min(1));
                self.tag("opt-chain-two-calls");
                let c = E::Call { callee: E::Member { obj: base.bx(), prop: m, optional: true }.bx(), args, optional: false };
                E::Call { callee: E::Member { obj: c.bx(), prop: m2, optional: self.t.chance(60) }.bx(), args: a2, optional: false }
            }
            // a?.m(args).p?.(x).m2()
            9 if !self.o.avoid.opt_call_paren_callee => {
                let m2 = self.method_name();
                let a2 = self.args(d.min(1));
                self.tag("opt-chain-two-calls");
                let c = E::Call { callee: E::Member { obj: base.bx(), prop: m, optional: true }.bx(), args, optional: false };
                let c2 = E::Call { callee: E::Member { obj: c.bx(), prop: p, optional: false }.bx(), args: a2, optional: true };
                E::Call { callee: E::Member { obj: c2.bx(), prop: m2, optional: false }.bx(), args: vec![], optional: false }
            }
            // a?.m(args)
            0 => E::Call { callee: E::Member { obj: base.bx(), prop: m, optional: true }.bx(), args, optional: false },
            // a?.p.m(args)
            1 => E::Call {
                callee: E::Member { obj: E::Member { obj: base.bx(), prop: p, optional: true }.bx(), prop: m, optional: false }.bx(),
                args,
                optional: false,
            },
            // a.p?.m(args)
            2 => E::Call {
                callee: E::Member { obj: E::Member { obj: base.bx(), prop: p, optional: false }.bx(), prop: m, optional: true }.bx(),
                args,
                optional: false,
            },
            // a?.[k].m(args)
            3 => {
                // the key may spell `prototype` as a string: `a?.['prototype'].m()`
                let k = if self.t.chance(45) {
                    self.tag("computed-prototype-key");
                    E::raw("'prototype'")
                } else {
                    self.expr(d.min(1))
                };
                E::Call {
                    callee: E::Member { obj: E::Index { obj: base.bx(), idx: k.bx(), optional: true }.bx(), prop: m, optional: false }.bx(),
                    args,
                    optional: false,
                }
            }
            // a?.(x).m(args)
            4 => {
                let a2 = self.args(d.min(1));
                E::Call {
                    callee: E::Member { obj: E::Call { callee: base.bx(), args: a2, optional: true }.bx(), prop: m, optional: false }.bx(),
                    args,
                    optional: false,
                }
            }
            // a.p?.(x).m(args)
            5 => {
                let a2 = self.args(d.min(1));
                self.tag("opt-call-member");
                E::Call {
                    callee: E::Member {
                        obj: E::Call { callee: E::Member { obj: base.bx(), prop: p, optional: false }.bx(), args: a2, optional: true }.bx(),
                        prop: m,
                        optional: false,
                    }
                    .bx(),
                    args,
                    optional: false,
                }
            }
            // a.m?.(args): documented exclusion
            6 => {
                self.tag("opt-invocation");
                E::Call { callee: E::Member { obj: base.bx(), prop: m, optional: false }.bx(), args, optional: true }
            }
            // a?.m(args).length  /  a?.m(args).p.q
            _ => {
                let c = E::Call { callee: E::Member { obj: base.bx(), prop: m, optional: true }.bx(), args, optional: false };
                E::Member { obj: c.bx(), prop: "length".into(), optional: self.t.flag() }
            }
        };
        self.opt_chain_depth -= 1;
        e
    }

    fn proto_call(&mut self, d: usize) -> E {
        let mut m = self.method_name();
        let mut class = *self.t.pick(&["String", "String", "Array", "K"]);
        if self.o.avoid.missing_proto_method {
            const STRING: &[&str] = &["substring", "trim", "trimStart", "trimEnd", "concat", "replace", "replaceAll", "slice", "padStart", "padEnd", "repeat", "toLowerCase", "toUpperCase"];
            const ARRAY: &[&str] = &["concat", "slice", "join"];
            let ok = match class {
                "String" => STRING.contains(&m.as_str()),
                "Array" => ARRAY.contains(&m.as_str()),
                _ => false,
            };
            if !ok {
                self.redirect("missing_proto_method");
                if ARRAY.contains(&m.as_str()) {
                    class = "Array";
                } else if STRING.contains(&m.as_str()) {
                    class = "String";
                } else {
                    class = "String";
                    m = self.o.methods.iter().chain(self.o.other_methods.iter()).find(|x| STRING.contains(&x.as_str())).cloned().unwrap_or_else(|| "trim".to_string());
                }
            }
        }
        // the owner of `.prototype` is usually a global class; sometimes an expression with effects (not a static path)
        let owner = if self.t.chance(30) && !(self.o.exec && self.o.avoid.missing_proto_method) {
            // (not in executed programs while the known finding about methods missing on the prototype is open: whether
            // `<expression>.prototype.m` exists is not known to the generator)
            self.tag("proto-path-not-static");
            match self.t.below(3) {
                0 => E::Call { callee: self.local_fn_or_h().bx(), args: vec![Arg { spread: false, e: E::id(class) }], optional: false },
                1 => E::Index { obj: E::id("o").bx(), idx: self.ident().bx(), optional: false },
                _ => E::Member { obj: E::Call { callee: E::id("h").bx(), args: vec![], optional: false }.bx(), prop: "q".into(), optional: false },
            }
        } else {
            E::id(class)
        };
        let path = if self.t.chance(25) && !(self.o.exec && self.o.avoid.missing_proto_method) {
            // `o.q.m.call(thisArg, ..)`: identifiers only, but not a `.prototype` path - read before thisArg is evaluated
            self.tag("member-path-call");
            E::Member { obj: E::Member { obj: E::id("o").bx(), prop: self.t.pick(&["q", "p", "k"]).to_string(), optional: false }.bx(), prop: m, optional: false }
        } else {
            E::Member {
                obj: E::Member { obj: owner.bx(), prop: "prototype".into(), optional: false }.bx(),
                prop: m,
                optional: false,
            }
        };
        self.tag("proto-call");
        let this_arg = match self.t.weighted(&[5, 2, 2, 1]) {
            0 => Arg { spread: false, e: self.ident() },
            1 => Arg { spread: false, e: self.expr(d) },
            2 => Arg { spread: false, e: self.string_lit() },
            _ => {
                if self.o.exec {
                    // a spread `this` argument makes "the receiver" ill defined: static checks only
                    Arg { spread: false, e: self.ident() }
                } else {
                    self.tag("proto-spread-this");
                    Arg { spread: true, e: self.ident() }
                }
            }
        };
        if self.t.flag() {
            let mut args = vec![this_arg];
            args.extend(self.args(d));
            E::Call { callee: E::Member { obj: path.bx(), prop: "call".into(), optional: false }.bx(), args, optional: false }
        } else {
            self.tag("proto-apply");
            let mut args = vec![this_arg];
            match self.t.weighted(&[5, 2, 1, 1]) {
                0 => {
                    let inner = self.args(d);
                    let mut elems: Vec<Option<Arg>> = inner.into_iter().map(Some).collect();
                    if self.t.chance(25) {
                        // an elision in the array passed to apply
                        self.tag("apply-array-hole");
                        let at = self.t.below(elems.len() + 1);
                        elems.insert(at, None);
                        if at + 1 == elems.len() {
                            elems.push(Some(Arg { spread: false, e: self.ident() }));
                        }
                    }
                    args.push(Arg { spread: false, e: E::Array(elems) });
                    if self.t.chance(35) && !(self.o.exec && self.o.avoid.apply_surplus_args) {
                        // `apply(thisArg, [..], surplus)`: evaluated, ignored by apply
                        self.tag("apply-surplus-arg");
                        let mut extra = self.expr(d.min(2));
                        if self.o.avoid.apply_surplus_args && matches!(extra, E::Array(_)) {
                            // known finding: a surplus array literal is expanded into the hook's operand list
                            self.redirect("apply_surplus_args");
                            extra = extra.paren();
                        }
                        args.push(Arg { spread: false, e: extra });
                    } else if self.o.exec && self.o.avoid.apply_surplus_args {
                        self.redirect("apply_surplus_args");
                    }
                }
                1 => args.push(Arg { spread: false, e: self.ident() }),
                2 => {}
                _ => {
                    // `apply(thisArg, ...spread)`: what "the call arguments" are is ill defined; static checks only
                    if self.o.exec {
                        args.push(Arg { spread: false, e: self.ident() })
                    } else {
                        args.push(Arg { spread: true, e: self.ident() })
                    }
                }
            }
            E::Call { callee: E::Member { obj: path.bx(), prop: "apply".into(), optional: false }.bx(), args, optional: false }
        }
    }

    fn is_pure_simple(e: &E) -> bool {
        match e {
            E::Id(_) => true,
            E::Raw(_) => true,
            _ => false,
        }
    }

    fn member_assign(&mut self, d: usize) -> E {
        let op = *self.t.pick(&["+=", "=", "+=", "-="]);
        let mut obj = self.receiver(d);
        if matches!(obj, E::Raw(_)) || matches!(obj, E::Tpl { .. }) {
            obj = self.ident();
        }
        if op == "+=" && self.o.avoid.compound_effectful_target && !Self::is_pure_simple(&obj) {
            self.redirect("compound_effectful_target");
            obj = self.ident();
        }
        if self.sc().super_ok && self.t.chance(90) {
            // `super.p += s`, `super[k()] += s`, `super.p.q += s`
            self.tag("super-target");
            obj = if self.t.chance(80) { E::Member { obj: E::Raw("super".into()).bx(), prop: self.t.pick(PROPS).to_string(), optional: false } } else { E::Raw("super".into()) };
        }
        let target = if self.t.flag() {
            E::Member { obj: obj.bx(), prop: self.t.pick(PROPS).to_string(), optional: false }
        } else {
            let mut idx = if self.t.chance(30) {
                // `o[a, b] += s`: a comma expression needs no parentheses as computed key
                self.tag("bare-sequence-key");
                let a = self.expr(d.min(1));
                let b = self.leaf();
                E::Seq(vec![a, b])
            } else {
                self.expr(d)
            };
            if op == "+=" && self.o.avoid.compound_effectful_target && !Self::is_pure_simple(&idx) {
                self.redirect("compound_effectful_target");
                idx = self.leaf();
            }
            E::Index { obj: obj.bx(), idx: idx.bx(), optional: false }
        };
        let r = self.expr(d);
        if op == "+=" {
            self.tag("add-assign-member");
        }
        // `(o.p) += s`: a parenthesised member is a legal assignment target too
        let target = if self.t.chance(25) {
            self.tag("paren-target");
            target.paren()
        } else {
            target
        };
        E::Assign(op, target.bx(), self.guard_literal_sum(r).bx()).paren()
    }

    /// `eval(<code that reads a local>)` with an argument that is not a plain identifier or literal: must stay a DIRECT eval
    fn direct_eval(&mut self) -> E {
        self.tag("direct-eval");
        let local = if self.sc().in_fn && self.sc().vars.iter().any(|v| v == "x") { "x" } else { "undefinedLocal" };
        let code = format!("'typeof {local}'");
        let arg = match self.t.below(5) {
            0 => E::Bin("+", E::Raw(code).bx(), E::raw("''").bx()),
            1 => E::Seq(vec![E::raw("'s'"), E::Raw(code)]).paren(),
            2 => E::Index { obj: E::Array(vec![Some(Arg { spread: false, e: E::Raw(code) })]).bx(), idx: E::raw("0").bx(), optional: false },
            3 => E::Call { callee: E::id("String").bx(), args: vec![Arg { spread: false, e: E::Raw(code) }], optional: false },
            _ => E::Raw(code),
        };
        E::Call { callee: E::id("eval").bx(), args: vec![Arg { spread: false, e: arg }], optional: false }
    }

    fn local_fn_or_h(&mut self) -> E {
        let n = self.sc().fns.len();
        if n == 0 {
            return E::id("h");
        }
        let i = self.t.below(n);
        E::Id(self.sc().fns[i].clone())
    }

    fn push_fn_scope(&mut self, params: &[String], is_async: bool, is_gen: bool, is_arrow: bool) {
        let mut sc = self.sc().clone();
        for p in params {
            sc.vars.push(p.clone());
            sc.assignable.push(p.clone());
        }
        sc.in_async = is_async;
        sc.in_gen = is_gen;
        sc.in_fn = true;
        sc.loop_depth = 0;
        sc.labels.clear();
        sc.in_arrow_default = false;
        sc.in_class_field = false;
        if !is_arrow {
            sc.this_ok = true;
            sc.super_ok = false;
        }
        self.scopes.push(sc);
    }

    /// scope of a class member body (method, accessor, constructor, static method): `super.p` is legal there
    fn push_member_scope(&mut self, params: &[String]) {
        self.push_fn_scope(params, false, false, false);
        self.scopes.last_mut().unwrap().super_ok = true;
    }

    fn arrow_use(&mut self, d: usize) -> E {
        let p = self.fresh("p");
        let is_async = self.t.chance(25);
        let with_default = self.t.chance(50);
        let mut params = format!("({}", p);
        let q = self.fresh("q");
        if with_default {
            self.tag("arrow-param-default");
            let mut sc = self.sc().clone();
            sc.in_arrow_default = true;
            sc.vars.push(p.clone());
            self.scopes.push(sc);
            let dflt = self.expr(d.min(2));
            self.scopes.pop();
            params.push_str(&format!(", {} = {}", q, dflt.print()));
        }
        params.push(')');
        let mut ps = vec![p.clone()];
        if with_default {
            ps.push(q);
        }
        self.push_fn_scope(&ps, is_async, false, true);
        let body = if self.t.flag() {
            self.tag("arrow-expr-body");
            let mut e = self.expr(d);
            if matches!(e, E::Block(ref s) if s.starts_with('{')) {
                e = E::Paren(e.bx());
            }
            ArrowBody::Expr(e.bx())
        } else {
            self.tag("arrow-block-body");
            let e = self.expr(d);
            let pre = if self.t.chance(60) { self.stmt(d.min(1), 1) } else { String::new() };
            ArrowBody::Block(format!("{{ {} return {}; }}", pre, e.print()))
        };
        self.scopes.pop();
        let arrow = E::Arrow { params, body, is_async };
        match self.t.weighted(&[3, 2, 1]) {
            // IIFE
            0 => {
                let args = self.args(d);
                E::Call { callee: E::Paren(arrow.bx()).bx(), args, optional: false }
            }
            // passed to a realm function that calls it back
            1 => {
                self.tag("callback");
                E::Call { callee: E::id("h").bx(), args: vec![Arg { spread: false, e: arrow }], optional: false }
            }
            _ => arrow,
        }
    }

    fn object_lit(&mut self, d: usize) -> E {
        let n = self.t.below(4);
        let mut parts = vec![];
        for _ in 0..n {
            match self.t.weighted(&[4, 2, 2, 1, 1, 1, 1, 1]) {
                5 => {
                    // accessor of an object literal with a body of its own (directives, temporaries)
                    self.push_fn_scope(&[], false, false, false);
                    let body = self.fn_body(d, 1, true);
                    self.scopes.pop();
                    self.tag("object-getter");
                    parts.push(format!("get gp{}() {}", self.counter, body));
                }
                6 => {
                    let p = self.fresh("p");
                    self.push_fn_scope(&[p.clone()], false, false, false);
                    let dir = self.directive(true);
                    let v = self.expr(d);
                    self.scopes.pop();
                    self.tag("object-setter");
                    parts.push(format!("set sp{}({p}) {{ {dir}this.k = {}; }}", self.counter, Self::arg_text(&v)));
                }
                7 => {
                    // generator / async methods
                    let p = self.fresh("p");
                    let is_async = self.t.flag();
                    self.push_fn_scope(&[p.clone()], is_async, !is_async, false);
                    let v = self.expr(d);
                    self.scopes.pop();
                    self.tag("object-special-method");
                    if is_async {
                        parts.push(format!("async am({p}) {{ return {}; }}", v.print()));
                    } else {
                        parts.push(format!("*gm({p}) {{ yield {}; }}", Self::arg_text(&v)));
                    }
                }
                0 => {
                    let v = self.expr(d);
                    parts.push(format!("{}: {}", self.t.pick(PROPS), Self::arg_text(&v)));
                }
                1 => {
                    let k = self.expr(d.min(1));
                    let v = self.expr(d);
                    self.tag("computed-key");
                    parts.push(format!("[{}]: {}", k.print(), Self::arg_text(&v)));
                }
                2 => {
                    let v = self.expr(d);
                    parts.push(format!("'a key': {}", Self::arg_text(&v)));
                }
                3 => {
                    let v = self.ident();
                    parts.push(format!("...{}", v.print()));
                }
                _ => {
                    let p = self.fresh("p");
                    self.push_fn_scope(&[p.clone()], false, false, false);
                    let v = self.expr(d);
                    self.scopes.pop();
                    self.tag("object-method");
                    parts.push(format!("m({}) {{ return {}; }}", p, v.print()));
                }
            }
        }
        E::Block(format!("{{{}}}", parts.join(", ")))
    }

    fn arg_text(e: &E) -> String {
        // an expression in argument position (precedence above comma)
        if e.prec() < 2 {
            format!("({})", e.print())
        } else {
            e.print()
        }
    }

    // ---------------------------------------------------------------- statements

    fn expr_stmt_text(e: &E) -> String {
        if e.starts_ambiguous() {
            format!("({});", e.print())
        } else {
            format!("{};", e.print())
        }
    }

    /// test expression for `if` / `while`: may be an instrumentable operation directly
    fn test_expr(&mut self, d: usize) -> E {
        let e = self.expr(d);
        if self.o.avoid.if_direct {
            match e {
                E::Id(_) | E::Raw(_) => e,
                _ => {
                    self.redirect("if_direct");
                    E::Call { callee: E::id("Boolean").bx(), args: vec![Arg { spread: false, e }], optional: false }
                }
            }
        } else {
            e
        }
    }

    fn body_stmt(&mut self, d: usize, sd: usize, allow_unbraced: bool) -> String {
        if allow_unbraced && self.t.chance(90) {
            self.tag("unbraced-body");
            // a lexical declaration is not allowed as an un-braced body
            let e = self.expr(d);
            let target = self.assignable_ident();
            format!("{} = {};", target.print(), Self::arg_text(&e))
        } else {
            self.block(d, sd)
        }
    }

    fn block(&mut self, d: usize, sd: usize) -> String {
        let n = self.t.weighted(&[1, 4, 3, 1]);
        let saved = self.sc().clone();
        self.scopes.push(saved);
        let mut s = String::from("{\n");
        for _ in 0..n {
            s.push_str(&self.stmt(d, sd.saturating_sub(1)));
            s.push('\n');
        }
        s.push('}');
        self.scopes.pop();
        s
    }

    pub fn stmt(&mut self, d: usize, sd: usize) -> String {
        self.budget -= 1;
        let simple_only = sd == 0 || self.budget <= 0;
        let w: [u32; 22] = [
            14, // 0 x = E
            8,  // 1 y += E
            8,  // 2 const v = E
            if simple_only { 0 } else { 9 },  // 3 if
            if simple_only { 0 } else { 4 },  // 4 for
            if simple_only { 0 } else { 3 },  // 5 for-in / for-of
            if simple_only { 0 } else { 3 },  // 6 while / do
            if simple_only { 0 } else { 3 },  // 7 switch
            if simple_only { 0 } else { 4 },  // 8 try
            if simple_only { 0 } else { 3 },  // 9 block
            6,  // 10 expression statement
            if simple_only { 0 } else { 5 },  // 11 nested function + call
            if simple_only { 0 } else { 4 },  // 12 class + use
            2,  // 13 return (conditional)
            2,  // 14 throw (conditional)
            3,  // 15 destructuring
            if simple_only { 0 } else { 2 },  // 16 labeled loop with break/continue
            if simple_only { 0 } else { 3 },  // 17 generator + spread
            if simple_only { 0 } else { 3 },  // 18 async function + call
            2,  // 19 let without / with several declarators
            if simple_only { 0 } else { 3 },  // 20 recursion
            2,  // 21 var
        ];
        if self.o.reserved_prefix.is_some() && self.t.chance(50) {
            return self.reserved_plant(d);
        }
        let mut w = w;
        if self.o.focus_reentrancy && !simple_only {
            w[11] = 14;
            w[12] = 8;
            w[17] = 8;
            w[18] = 6;
            w[20] = 12;
        }
        if self.o.focus_strictness && self.sc().in_fn {
            if self.t.chance(40) {
                return self.strictness_probe();
            }
            if !simple_only {
                w[11] = 12;
                w[12] = 6;
            }
        }
        match self.t.weighted(&w) {
            0 => {
                let t = self.assignable_ident();
                let e = self.expr(d);
                format!("{} = {};", t.print(), Self::arg_text(&e))
            }
            1 => {
                let t = self.assignable_ident();
                let e = self.expr(d);
                let e = self.guard_literal_sum(e);
                self.tag("add-assign-ident");
                format!("{} += {};", t.print(), Self::arg_text(&e))
            }
            2 => {
                let e = self.expr(d);
                let v = self.fresh("v");
                let s = format!("const {} = {};", v, Self::arg_text(&e));
                self.scm().vars.push(v);
                s
            }
            3 => {
                self.tag("if");
                let t = self.test_expr(d);
                let unbraced_ok = !self.o.avoid.if_direct;
                let cons = self.body_stmt(d, sd, unbraced_ok);
                let mut s = format!("if ({}) {}", t.print(), cons);
                match self.t.weighted(&[3, 3, 2]) {
                    0 => {}
                    1 => {
                        self.tag("else");
                        let alt = self.body_stmt(d, sd, unbraced_ok);
                        s.push_str(&format!(" else {}", alt));
                    }
                    _ => {
                        self.tag("else-if");
                        let t2 = self.test_expr(d);
                        let c2 = self.body_stmt(d, sd, unbraced_ok);
                        s.push_str(&format!(" else if ({}) {}", t2.print(), c2));
                        if self.t.flag() {
                            let alt = self.body_stmt(d, sd, unbraced_ok);
                            s.push_str(&format!(" else {}", alt));
                        }
                    }
                }
                s
            }
            4 => {
                self.tag("for");
                let i = self.fresh("i");
                let init = self.expr(d.min(2));
                let upd = self.expr(d.min(2));
                self.scm().loop_depth += 1;
                self.scm().vars.push(i.clone());
                let body = self.body_stmt(d, sd, true);
                self.scm().loop_depth -= 1;
                self.scm().vars.pop();
                // `in` operator never generated, so the init expression is safe in a for head
                format!("for (let {i} = 0, z{i} = {}; {i} < 2; {i}++, {}) {}", Self::arg_text(&init), Self::arg_text(&upd), body)
            }
            5 => {
                self.tag("for-in-of");
                let k = self.fresh("k");
                let a = self.expr(d.min(2));
                let b = self.expr(d.min(2));
                let kind = *self.t.pick(&["of", "in", "of"]);
                let await_kw = if kind == "of" && self.sc().in_async && self.t.chance(60) { "await " } else { "" };
                self.scm().loop_depth += 1;
                self.scm().vars.push(k.clone());
                let body = self.body_stmt(d, sd, true);
                self.scm().loop_depth -= 1;
                self.scm().vars.pop();
                if self.t.chance(100) {
                    // the iterated expression is directly an (instrumentable) operation
                    self.tag("for-head-direct");
                    let direct = self.expr(d.min(3));
                    if kind == "of" {
                        return format!("for {}(const {} of {}) {}", await_kw, k, Self::arg_text(&direct), body);
                    }
                    return format!("for (const {} in {}) {}", k, direct.print(), body);
                }
                if kind == "of" {
                    format!("for {}(const {} of [{}, {}]) {}", await_kw, k, Self::arg_text(&a), Self::arg_text(&b), body)
                } else {
                    format!("for (const {} in {{p: {}, q: {}}}) {}", k, Self::arg_text(&a), Self::arg_text(&b), body)
                }
            }
            6 => {
                self.tag("while");
                let w = self.fresh("w");
                let c = self.expr(d.min(2));
                self.scm().loop_depth += 1;
                let body = self.body_stmt(d, sd, true);
                self.scm().loop_depth -= 1;
                if self.t.flag() {
                    format!("let {w} = 0;\nwhile ({w}++ < 2 && ({}, true)) {}", c.print(), body)
                } else {
                    self.tag("do-while");
                    format!("let {w} = 0;\ndo {} while ({w}++ < 1 && ({}, true));", body, c.print())
                }
            }
            7 => {
                self.tag("switch");
                let disc = self.expr(d.min(2));
                let c1 = self.expr(d.min(2));
                let s1 = self.stmt(d, 0);
                let s2 = self.stmt(d, 0);
                let s3 = self.stmt(d, 0);
                // lexical declarations inside switch cases share one scope: wrap each in a block when it declares
                let wrap = |s: String| if s.starts_with("const ") || s.starts_with("let ") { format!("{{ {} }}", s) } else { s };
                let brk = if self.t.flag() { "break;" } else { "" };
                format!(
                    "switch ({}) {{\ncase {}: {} {}\ncase 1: {}\ndefault: {}\n}}",
                    disc.print(),
                    c1.print(),
                    wrap(s1),
                    brk,
                    wrap(s2),
                    wrap(s3)
                )
            }
            8 => {
                self.tag("try");
                let b1 = self.block(d, sd);
                let err = self.fresh("err");
                // the caught value is not used as an operand in executable programs: engine error messages
                // mention identifiers and are outside the compared behaviour
                if !self.o.exec {
                    self.scm().vars.push(err.clone());
                }
                let mut b2 = self.block(d, sd);
                if !self.o.exec {
                    self.scm().vars.pop();
                } else {
                    b2 = format!("{{ y = 'caught' + ({err} instanceof TypeError) + (typeof {err});\n{}", &b2[1..]);
                }
                if self.t.chance(40) {
                    // `catch ({ nope: e = <operation> })`: a binding pattern with a default in the catch clause
                    self.tag("catch-pattern-default");
                    let dflt = self.expr(d.min(2));
                    let b2p = if self.o.exec { b2.replace(&format!("({err} instanceof TypeError) + (typeof {err})"), &format!("(typeof {err})")) } else { b2.clone() };
                    return format!("try {} catch ({{ nope: {} = {} }}) {}", b1, err, Self::arg_text(&dflt), b2p);
                }
                match self.t.weighted(&[3, 2, 1]) {
                    0 => format!("try {} catch ({}) {}", b1, err, b2),
                    1 => {
                        let b3 = self.block(d, sd);
                        self.tag("finally");
                        format!("try {} catch ({}) {} finally {}", b1, err, b2, b3)
                    }
                    _ => {
                        let b3 = self.block(d, sd);
                        self.tag("finally");
                        format!("try {{ try {} finally {} }} catch {{ }}", b1, b3)
                    }
                }
            }
            9 => {
                self.tag("nested-block");
                self.block(d, sd)
            }
            10 => {
                let e = self.expr(d);
                if !self.o.exec && self.t.chance(20) {
                    // `import(<specifier expression>)`: its callee is not an expression
                    self.tag("dynamic-import");
                    return format!("import({});", Self::arg_text(&e));
                }
                Self::expr_stmt_text(&e)
            }
            11 => self.nested_function(d, sd),
            12 => self.class_decl(d, sd),
            13 => {
                if !self.sc().in_fn {
                    return ";".into();
                }
                self.tag("return");
                let c = self.expr(d.min(1));
                let e = self.expr(d);
                if self.sc().in_gen && false {
                    String::new()
                } else {
                    format!("if ({}) return {};", Self::wrap_test(&c), e.print())
                }
            }
            14 => {
                self.tag("throw");
                let c = self.expr(d.min(1));
                let e = self.expr(d);
                format!("if ({}) throw {};", Self::wrap_test(&c), e.print())
            }
            15 => {
                self.tag("destructuring");
                let v1 = self.fresh("v");
                let v2 = self.fresh("v");
                let dflt = self.expr(d.min(2));
                let init = self.expr(d);
                let s = match self.t.below(5) {
                    3 => {
                        // computed keys and member targets of a destructuring assignment are expressions of the block too
                        self.tag("destructuring-assignment-targets");
                        let k = self.expr(d.min(2));
                        let k2 = self.expr(d.min(2));
                        format!("let {}, {};\n({{ [{}]: {}, q: o[{}] = {} }} = Object({}));", v1, v2, k.print(), v1, k2.print(), Self::arg_text(&dflt), Self::arg_text(&init))
                    }
                    4 => {
                        self.tag("destructuring-assignment-targets");
                        let k = self.expr(d.min(2));
                        format!("let {}, {};\n[o[{}], {} = {}] = [{}];", v1, v2, k.print(), v2, Self::arg_text(&dflt), Self::arg_text(&init))
                    }
                    0 => format!("const {{p: {}, q: {} = {}}} = Object({});", v1, v2, Self::arg_text(&dflt), Self::arg_text(&init)),
                    1 => format!("const [{}, {} = {}] = [{}];", v1, v2, Self::arg_text(&dflt), Self::arg_text(&init)),
                    _ => {
                        let t = self.assignable_ident();
                        format!("let {}, {};\n[{}, {}, {} = {}] = [{}, 1];", v1, v2, t.print(), v1, v2, Self::arg_text(&dflt), Self::arg_text(&init))
                    }
                };
                self.scm().vars.push(v1);
                self.scm().vars.push(v2);
                s
            }
            16 => {
                self.tag("label");
                let l = self.fresh("L");
                let i = self.fresh("i");
                let c = self.expr(d.min(1));
                self.scm().loop_depth += 1;
                let inner = self.stmt(d, sd.saturating_sub(1));
                self.scm().loop_depth -= 1;
                let kw = if self.t.flag() { "break" } else { "continue" };
                let inner = if inner.starts_with("const ") || inner.starts_with("let ") { format!("{{ {} }}", inner) } else { inner };
                format!("{l}: for (let {i} = 0; {i} < 2; {i}++) {{\n{}\nif ({}) {} {l};\n}}", inner, Self::wrap_test(&c), kw)
            }
            17 => self.generator_fn(d, sd),
            18 => self.async_fn(d, sd),
            19 => {
                let v1 = self.fresh("v");
                let v2 = self.fresh("v");
                let e = self.expr(d);
                let e2 = self.expr(d);
                let s = format!("let {}, {} = {}, z{} = {};", v1, v2, Self::arg_text(&e), v2, Self::arg_text(&e2));
                self.scm().vars.push(v2.clone());
                self.scm().assignable.push(v1);
                self.scm().assignable.push(v2);
                s
            }
            20 => {
                if self.t.chance(12) {
                    self.long_chain()
                } else if self.t.chance(100) {
                    self.sibling_arrows(d)
                } else if self.t.chance(90) {
                    self.reentrant_member(d)
                } else {
                    self.recursion(d)
                }
            }
            _ => {
                let v = self.fresh("u");
                let e = self.expr(d);
                let s = format!("var {} = {};", v, Self::arg_text(&e));
                self.scm().vars.push(v);
                s
            }
        }
    }

    /// C06 refusal mode: a name with the reserved prefix (or a look-alike) somewhere the grammar has an identifier
    fn reserved_plant(&mut self, d: usize) -> String {
        let prefix = self.o.reserved_prefix.clone().unwrap_or_else(|| "test".into());
        let k = self.t.below(3);
        let mut real = format!("__datadog_{prefix}_{k}");
        if self.t.chance(50) {
            // the same name spelled with a unicode escape (the text of the file does not contain the prefix then)
            self.tag("reserved:unicode-escape-spelling");
            real = if self.t.flag() { format!("\\u005f_datadog_{prefix}_{k}") } else { format!("_\\u{{5f}}datadog_{prefix}_{k}") };
        }
        let e = self.expr(d.min(2));
        let et = Self::arg_text(&e);
        let e2 = self.plus(d.min(2));
        let e2t = Self::arg_text(&e2);
        match self.t.below(24) {
            21 => {
                // a reference that sits only in the default value of a nested (non-arrow) function's parameter
                self.tag("reserved-ident");
                self.tag("reserved:only-in-nested-function-default");
                format!("function zd{k}(p = typeof {real}) {{ return p; }}\nx = zd{k}() + {e2t};")
            }
            22 => {
                self.tag("reserved-ident");
                self.tag("reserved:only-in-method-default");
                format!("x = ({{ m(p = () => {real}) {{ return p; }} }}).m() + {e2t};")
            }
            23 => {
                self.tag("reserved-ident");
                self.tag("reserved:only-in-destructuring-parameter-default");
                format!("const zf{k} = function ({{ q = {real} }} = {{}}) {{ return 1; }};\nx = zf{k}({{ q: 1 }}) + {e2t};")
            }
            20 => {
                self.tag("reserved-ident");
                self.tag("reserved:unreferenced-function-name");
                format!("function {real}() {{ return 1; }}\nx = {e2t};")
            }
            18 => {
                self.tag("reserved-ident");
                self.tag("reserved:only-in-concise-arrow-body");
                format!("x = {e2t};\ny = (() => {real});")
            }
            19 => {
                self.tag("reserved-ident");
                self.tag("reserved:only-in-concise-arrow-member");
                format!("x = {e2t};\ny = (() => {real}.p ? 1 : 2);")
            }
            16 => {
                self.tag("reserved-ident");
                self.tag("reserved:tpl-with-literal-subst");
                format!("x = `${{typeof {real}}}${{'lit'}}` + {e2t};")
            }
            17 => {
                self.tag("reserved-ident");
                self.tag("reserved:nested-function-parameter");
                format!("function zz{k}({real}) {{ return {real} + {e2t}; }}\nx = zz{k}({et});")
            }
            14 => {
                self.tag("reserved-ident");
                self.tag("reserved:only-in-arrow-default");
                format!("x = ((p = typeof {real}) => p + {e2t})() + {et};")
            }
            15 => {
                self.tag("reserved-ident");
                self.tag("reserved:only-in-delete-operand");
                format!("try {{ delete {real}.p; }} catch {{ }}\nx = {e2t};")
            }
            0 => {
                self.tag("reserved-ident");
                self.tag("reserved:binding");
                format!("const {real} = {et};\nx = {real} + {e2t};")
            }
            1 => {
                self.tag("reserved-ident");
                self.tag("reserved:reference");
                format!("x = typeof {real} + {e2t};")
            }
            2 => {
                self.tag("reserved-ident");
                self.tag("reserved:parameter");
                format!("x = (function ({real}) {{ return {real} + {e2t}; }})({et});")
            }
            3 => {
                self.tag("reserved-ident");
                self.tag("reserved:arrow-parameter");
                format!("x = (({real}) => {real} + {e2t})({et});")
            }
            4 => {
                self.tag("reserved-ident");
                self.tag("reserved:arrow-default");
                format!("let {real} = {et};\nx = ((p = {real}) => p + {e2t})();")
            }
            5 => {
                self.tag("reserved-ident");
                self.tag("reserved:catch");
                format!("try {{ x = {e2t}; throw 1; }} catch ({real}) {{ y = {real} + {e2t}; }}")
            }
            6 => {
                self.tag("reserved-ident");
                self.tag("reserved:label");
                format!("{real}: for (let ri = 0; ri < 1; ri++) {{ x = {e2t}; break {real}; }}")
            }
            7 => {
                self.tag("reserved-ident");
                self.tag("reserved:delete-operand");
                format!("var {real} = {{p: {et}}};\ndelete {real}.p;\nx = {e2t};")
            }
            8 => {
                self.tag("reserved-harmless");
                self.tag("reserved:property-key");
                format!("x = {{{real}: {et}}}.{real} + {e2t};")
            }
            9 => {
                self.tag("reserved-harmless");
                self.tag("reserved:member-name");
                format!("x = o.{real} + {e2t};")
            }
            10 => {
                self.tag("reserved-harmless");
                self.tag("reserved:string");
                format!("x = '{real}' + {e2t};")
            }
            11 => {
                self.tag("reserved-harmless");
                self.tag("reserved:other-prefix");
                format!("const __datadog_zzzzzz_0 = {et};\nx = __datadog_zzzzzz_0 + {e2t};")
            }
            12 => {
                self.tag("reserved-ident");
                self.tag("reserved:destructuring");
                format!("const {{p: {real} = {et}}} = Object({e2t});\ny = {real};")
            }
            _ => {
                self.tag("reserved-ident");
                self.tag("reserved:function-name");
                format!("function {real}() {{ return {et}; }}\nx = {real}() + {e2t};")
            }
        }
    }

    /// statements whose behaviour depends on the strictness of the enclosing function
    fn strictness_probe(&mut self) -> String {
        self.tag("strictness-probe");
        let n = self.fresh("sp");
        match self.t.below(4) {
            0 => format!("y += (function () {{ return typeof this; }})();"),
            // (not "assignment to an undeclared name": inside a vm context V8 stops throwing for it once the store is warm -
            // after about 11 iterations in Node 20 - which made a strictness difference appear out of nothing)
            1 => format!("try {{ delete Object.prototype; y += 'sloppy'; }} catch {{ y += 'strict'; }}"),
            2 => format!("y += (function ({n}) {{ {n} = 2; return arguments[0]; }})(1);"),
            _ => format!("try {{ Object.freeze([0])[0] = 1; y += 'silent'; }} catch {{ y += 'threw'; }}"),
        }
    }

    fn wrap_test(e: &E) -> String {
        e.print()
    }

    fn directive(&mut self, simple_params: bool) -> String {
        if !simple_params {
            return String::new();
        }
        if self.o.avoid.multi_directive {
            return match self.t.weighted(&[5, 3]) {
                0 => String::new(),
                _ => {
                    self.tag("directive");
                    "'use strict';\n".into()
                }
            };
        }
        let w0 = if self.o.focus_strictness { 3 } else { 10 };
        match self.t.weighted(&[w0, 4, 2, 2, 1, 1]) {
            0 => String::new(),
            1 => {
                self.tag("directive");
                "'use strict';\n".into()
            }
            2 => {
                self.tag("directive");
                self.tag("multi-directive");
                // directives that mean something to some engine or tool come first, strictness follows
                let first = *self.t.pick(&["'use foo'", "'use asm'", "\"use client\"", "'use\\x20strict'", "'use \\\nstrict'"]);
                format!("{first};\n\"use strict\";\n")
            }
            3 => {
                self.tag("directive");
                self.tag("multi-directive");
                "\"use strict\";\n'use bar';\n".into()
            }
            4 => {
                self.tag("directive-lookalike");
                if self.t.flag() {
                    "('use strict');\n".into()
                } else {
                    // an empty statement first: the string below is NOT a directive
                    ";\n'use strict';\n".into()
                }
            }
            _ => {
                self.tag("directive");
                self.tag("multi-directive");
                "'a';\n'b';\n'use strict';\n".into()
            }
        }
    }

    fn param_default(&mut self, d: usize) -> Option<E> {
        if !self.t.chance(70) {
            return None;
        }
        self.tag("param-default");
        let mut sc = self.sc().clone();
        sc.in_arrow_default = true; // forbids await / yield
        sc.super_ok = false; // the default belongs to a (non-arrow) nested function
        self.scopes.push(sc);
        let e = if self.o.avoid.instr_in_param_default {
            self.redirect("instr_in_param_default");
            self.leaf()
        } else {
            self.expr(d.min(2))
        };
        self.scopes.pop();
        Some(e)
    }

    fn fn_body(&mut self, d: usize, sd: usize, simple_params: bool) -> String {
        let dir = self.directive(simple_params);
        let n = self.t.weighted(&[1, 4, 3, 1]);
        let mut s = String::from("{\n");
        s.push_str(&dir);
        for _ in 0..n {
            s.push_str(&self.stmt(d, sd.saturating_sub(1)));
            s.push('\n');
        }
        let r = self.expr(d);
        s.push_str(&format!("return {};\n}}", r.print()));
        s
    }

    fn nested_function(&mut self, d: usize, sd: usize) -> String {
        self.tag("nested-function");
        let name = self.fresh("n");
        let p = self.fresh("p");
        let q = self.fresh("q");
        let dflt = self.param_default(d);
        let params = match &dflt {
            Some(e) => format!("{}, {} = {}", p, q, Self::arg_text(e)),
            None => format!("{}, {}", p, q),
        };
        self.push_fn_scope(&[p, q], false, false, false);
        let body = self.fn_body(d, sd, dflt.is_none());
        self.scopes.pop();
        // callable only after its definition: no unbounded self recursion
        self.scm().fns.push(name.clone());
        let a = self.args(d);
        let t = self.assignable_ident();
        let call = E::Call { callee: E::Id(name.clone()).bx(), args: a, optional: false };
        let form = self.t.weighted(&[4, 2, 2]);
        match form {
            0 => format!("function {}({}) {}\n{} = {};", name, params, body, t.print(), call.print()),
            1 => {
                self.tag("function-expression");
                format!("const {} = function ({}) {};\n{} = {};", name, params, body, t.print(), call.print())
            }
            _ => {
                self.tag("callback");
                format!("function {}({}) {}\n{} = h({});", name, params, body, t.print(), name)
            }
        }
    }

    /// two concise arrows of one block whose bodies are single method calls, the first calling the second inside its
    /// arguments (re-entrancy between the assignment of the temporaries and the hook call)
    fn sibling_arrows(&mut self, d: usize) -> String {
        self.tag("sibling-arrows");
        let ka = self.fresh("ka");
        let kb = self.fresh("kb");
        let m1 = self.method_name();
        let m2 = self.method_name();
        // the extra argument lives inside the arrow: no yield / await of the enclosing function there
        self.push_fn_scope(&["p".to_string()], false, false, true);
        let extra = self.expr(d.min(1));
        self.scopes.pop();
        let arg = self.expr(d.min(2));
        let t = self.assignable_ident();
        let rec = self.t.flag();
        let body_a = if rec {
            // recursion through its own arguments, bounded by the second parameter
            format!("(p, n) => p.{m1}(n > 0 ? {ka}(p, n - 1) : {kb}(p), {})", Self::arg_text(&extra))
        } else {
            format!("(p) => p.{m1}({kb}(p), {})", Self::arg_text(&extra))
        };
        format!(
            "const {kb} = (q) => q.{m2}('z');\nconst {ka} = {body_a};\n{} = {ka}({}, 2);",
            t.print(),
            Self::arg_text(&arg)
        )
    }

    /// One statement that nests many operations: a sum of N operands (left-nested N-1 deep), a fluent chain of N calls.
    fn long_chain(&mut self) -> String {
        self.tag("long-chain");
        let n = *self.t.pick(&[12usize, 40, 66, 67, 70]);
        let t = self.assignable_ident();
        let vars: Vec<String> = self.sc().vars.clone();
        let pick = |i: usize| vars[i % vars.len().max(1)].clone();
        if self.t.flag() {
            // (every fifth operand is a call: it sits in a temporary, more than ten of them for the longer sums)
            let operands: Vec<String> = (0..n).map(|i| if i % 7 == 3 { format!("'k{i}'") } else if i % 5 == 1 { format!("h({})", pick(i)) } else { pick(i) }).collect();
            format!("{} = {};", t.print(), operands.join(" + "))
        } else {
            let m = self.method_name();
            let mut s = pick(0);
            // (known finding: with the plus operator disabled a sum must not be the argument of an instrumented call)
            let sums = self.o.plus_enabled || !self.o.avoid.plain_sum_operand;
            if !sums {
                self.redirect("plain_sum_operand");
            }
            for i in 0..n {
                if sums {
                    s.push_str(&format!(".{m}({} + {})", pick(i + 1), pick(i + 2)));
                } else {
                    s.push_str(&format!(".{m}({}, {})", pick(i + 1), pick(i + 2)));
                }
            }
            format!("{} = {};", t.print(), s)
        }
    }

    /// A member with a body of its own that is not a `Function` node everywhere (accessor of an object literal, class
    /// constructor, static block) and needs temporaries, invoked while an instrumented operation of the defining
    /// function is half evaluated (an earlier operand already sits in a temporary).
    fn reentrant_member(&mut self, d: usize) -> String {
        self.tag("reentrant-member");
        let ob = self.fresh("ob");
        let cl = self.fresh("D");
        let p = self.fresh("p");
        let m1 = self.method_name();
        let call = |g: &mut Self| {
            let f = g.local_fn_or_h();
            let a = g.ident();
            E::Call { callee: f.bx(), args: vec![Arg { spread: false, e: a }], optional: false }
        };
        self.push_fn_scope(&[], false, false, false);
        let (g1, g2) = (call(self), call(self));
        let extra = self.expr(d.min(1));
        self.scopes.pop();
        self.push_fn_scope(&[p.clone()], false, false, false);
        let (c1, c2) = (call(self), call(self));
        self.scopes.pop();
        let (o1, o2) = (call(self), call(self));
        let t = self.assignable_ident();
        let t2 = self.assignable_ident();
        let decl = format!(
            "const {ob} = {{ get gp() {{ return {} + {} + {}; }}, set sp(v) {{ this.k = v.{m1}({}, v); }} }};\nclass {cl} {{ constructor({p}) {{ this.p = `${{{}}}-${{{}}}`; }} static {{ {cl}.s = {} + 's'; }} }}",
            g1.print(),
            g2.print(),
            E::Paren(extra.bx()).print(),
            g1.print(),
            c1.print(),
            c2.print(),
            o1.print()
        );
        let uses = match self.t.below(3) {
            0 => format!("{} = {} + {ob}.gp + {};", t.print(), o1.print(), o2.print()),
            1 => format!("{} = `${{{}}}${{new {cl}({}).p}}${{{ob}.gp}}`;", t.print(), o1.print(), o2.print()),
            _ => format!("{} = {}.{m1}(({ob}.sp = {}), new {cl}({}).p, {cl}.s);", t.print(), o1.print(), o2.print(), self.ident().print()),
        };
        format!("{decl}\n{uses}\n{} = {ob}.k;", t2.print())
    }

    fn recursion(&mut self, d: usize) -> String {
        self.tag("recursion");
        let name = self.fresh("r");
        let n = self.fresh("n");
        let p = self.fresh("p");
        let dflt = self.param_default(d);
        let params = match &dflt {
            Some(e) => format!("{}, {} = {}", n, p, Self::arg_text(e)),
            None => format!("{}, {}", n, p),
        };
        self.push_fn_scope(&[p.clone()], false, false, false);
        // operands contain the recursive call, so temporaries are live across re-entry
        let inner = self.expr(d.min(2));
        let inner2 = self.expr(d.min(2));
        self.scopes.pop();
        self.scm().fns.push(name.clone());
        let t = self.assignable_ident();
        let arg = self.expr(d.min(2));
        let rec_args = if dflt.is_some() && self.t.flag() { format!("{n} - 1") } else { format!("{n} - 1, {}", Self::arg_text(&inner2)) };
        format!(
            "function {name}({params}) {{\nif (!({n} > 0 && {n} < 4)) return {p};\nreturn {} + {name}({rec_args}) + {p};\n}}\n{} = {name}(2, {});",
            Self::plus_operand(&inner),
            t.print(),
            Self::arg_text(&arg)
        )
    }

    fn plus_operand(e: &E) -> String {
        if e.prec() < 13 {
            format!("({})", e.print())
        } else {
            e.print()
        }
    }

    fn generator_fn(&mut self, d: usize, sd: usize) -> String {
        self.tag("generator");
        let name = self.fresh("gn");
        let p = self.fresh("p");
        self.push_fn_scope(&[p.clone()], false, true, false);
        let dir = self.directive(true);
        let e1 = self.expr(d);
        let s1 = self.stmt(d, sd.saturating_sub(1));
        let e2 = self.expr(d);
        let e3 = self.expr(d);
        self.scopes.pop();
        let a = self.expr(d.min(2));
        let t = self.assignable_ident();
        // `yield* <operation>` (delegation to whatever the operation yields) or `yield* [<operation>]`
        let delegate = if self.t.chance(70) {
            self.tag("yield-star-operation");
            Self::arg_text(&e2)
        } else {
            format!("[{}]", Self::arg_text(&e2))
        };
        format!(
            "function* {name}({p}) {{\n{dir}const r{name} = yield {};\n{}\nyield* {};\nreturn {};\n}}\n{} = [...{name}({})];",
            Self::arg_text(&e1),
            s1,
            delegate,
            e3.print(),
            t.print(),
            Self::arg_text(&a)
        )
    }

    fn async_fn(&mut self, d: usize, sd: usize) -> String {
        self.tag("async-function");
        let name = self.fresh("af");
        let p = self.fresh("p");
        self.push_fn_scope(&[p.clone()], true, false, false);
        let body = self.fn_body(d, sd, true);
        self.scopes.pop();
        let a = self.expr(d.min(2));
        let t = self.assignable_ident();
        if self.sc().in_async && !self.sc().in_arrow_default {
            format!("async function {name}({p}) {body}\n{} = await {name}({});", t.print(), Self::arg_text(&a))
        } else {
            format!("async function {name}({p}) {body}\n{} = {name}({});", t.print(), Self::arg_text(&a))
        }
    }

    fn class_decl(&mut self, d: usize, sd: usize) -> String {
        self.tag("class");
        let name = self.fresh("C");
        let p = self.fresh("p");
        let mut members = vec![];
        // field initialisers
        if self.t.chance(150) {
            self.tag("class-field");
            let mut sc = self.sc().clone();
            sc.in_class_field = true;
            sc.this_ok = true;
            sc.in_async = false;
            sc.in_gen = false;
            self.scopes.push(sc);
            let e = if self.o.avoid.instr_in_param_default {
                self.redirect("instr_in_param_default");
                self.leaf()
            } else {
                self.expr(d.min(2))
            };
            let e2 = if self.o.avoid.instr_in_param_default { self.leaf() } else { self.expr(d.min(2)) };
            self.scopes.pop();
            members.push(format!("fld = {};", Self::arg_text(&e)));
            members.push(format!("static sfld = {};", Self::arg_text(&e2)));
        }
        // constructor; a derived class calls `super(<arguments>)` first (`K` is a global constructor of the realm)
        let derived = self.t.chance(90);
        self.push_member_scope(&[p.clone()]);
        let ce = self.expr(d);
        let sup = if derived {
            self.tag("super-call");
            if self.o.avoid.super_key_before_super_call {
                // known finding: no `super.p` / `super[k]` inside the arguments of `super(..)`
                self.redirect("super_key_before_super_call");
                self.scopes.last_mut().unwrap().super_ok = false;
            }
            let a1 = self.expr(d);
            let a2 = self.expr(d.min(2));
            self.scopes.last_mut().unwrap().super_ok = true;
            format!("super({}, {}); ", Self::arg_text(&a1), Self::arg_text(&a2))
        } else {
            String::new()
        };
        self.scopes.pop();
        members.push(format!("constructor({p}) {{ {sup}this.p = {}; }}", Self::arg_text(&ce)));
        // method
        let mp = self.fresh("p");
        self.push_member_scope(&[mp.clone()]);
        let mbody = self.fn_body(d, sd, true);
        self.scopes.pop();
        members.push(format!("m({mp}) {mbody}"));
        // getter, static method, static block, computed member name
        if self.t.flag() {
            self.push_member_scope(&[]);
            let ge = self.expr(d);
            self.scopes.pop();
            self.tag("getter");
            members.push(format!("get gp() {{ return {}; }}", ge.print()));
        }
        if self.t.flag() {
            let sp = self.fresh("p");
            self.push_member_scope(&[sp.clone()]);
            let se = self.expr(d);
            self.scopes.pop();
            members.push(format!("static sm({sp}) {{ return {}; }}", se.print()));
        }
        if self.t.chance(80) {
            let sp = self.fresh("p");
            self.push_member_scope(&[sp.clone()]);
            let se = self.expr(d);
            self.scopes.pop();
            self.tag("class-setter-private");
            members.push(format!("#priv = 1;\nset sv({sp}) {{ this.#priv = {}; }}\nget pv() {{ return this.#priv; }}\nstatic has(o) {{ return #priv in o; }}", Self::arg_text(&se)));
            if self.t.chance(140) {
                // a private accessor (every read runs code) and a private field as operands of `+` / `+=`
                self.tag("private-member-operand");
                let l1 = self.leaf();
                let l2 = self.leaf();
                members.push(format!("get #acc() {{ return h(this.#priv); }}\nset #acc(v) {{ h(v); }}\npa() {{ return [this.#acc + {}, this.#priv += {}, this.#acc += 's', `${{this.#acc}}${{{}}}`]; }}", l1.print(), Self::arg_text(&l2), l1.print()));
            }
        }
        if self.t.chance(60) {
            // a private method that has the name of a configured method: `this.#trim(x)` is not a call of `trim`
            self.tag("private-method-named-like-configured");
            let m = self.method_name();
            let sp = self.fresh("p");
            self.push_member_scope(&[sp.clone()]);
            let a1 = self.expr(d.min(2));
            let a2 = self.expr(d.min(2));
            self.scopes.pop();
            members.push(format!("#{m}(v) {{ return v; }}\npm{m}({sp}) {{ return this.#{m}({}) + {}; }}", Self::arg_text(&a1), Self::plus_operand(&a2)));
        }
        if self.t.chance(80) {
            self.tag("static-block");
            let mut sc = self.sc().clone();
            sc.in_async = false;
            sc.in_gen = false;
            sc.in_fn = false;
            sc.loop_depth = 0;
            sc.this_ok = true;
            self.scopes.push(sc);
            let st = self.stmt(d, 0);
            self.scopes.pop();
            if !st.contains("return ") {
                members.push(format!("static {{ {} }}", st));
            }
        }
        if self.t.chance(80) {
            self.tag("computed-member-name");
            let sc = self.sc().clone();
            let mut sc2 = sc;
            sc2.in_arrow_default = true; // no await / yield in a computed key of a nested class (kept simple)
            self.scopes.push(sc2);
            let k = self.expr(d.min(2));
            self.scopes.pop();
            members.push(format!("[{}]() {{ return 1; }}", k.print()));
        }
        let a = self.expr(d.min(2));
        let b = self.expr(d.min(2));
        let t = self.assignable_ident();
        let usage = match self.t.below(3) {
            0 => format!("new {name}({}).m({})", Self::arg_text(&a), Self::arg_text(&b)),
            1 => format!("new {name}({}).gp", Self::arg_text(&a)),
            _ => format!("[new {name}({}).fld, {name}.sfld, {name}.sm && {name}.sm({})]", Self::arg_text(&a), Self::arg_text(&b)),
        };
        let ext = if derived {
            if self.t.chance(70) {
                // the heritage clause is an expression of the enclosing block: `class C extends (<operation>, K)`
                self.tag("class-heritage-operation");
                let h = self.expr(d.min(2));
                format!(" extends ({}, K)", Self::arg_text(&h))
            } else {
                " extends K".to_string()
            }
        } else {
            String::new()
        };
        format!("class {name}{ext} {{\n{}\n}}\n{} = {};", members.join("\n"), t.print(), usage)
    }

    // ---------------------------------------------------------------- program

    pub fn program(mut self) -> Prog {
        let module = self.o.allow_module && self.t.chance(50);
        let entry = match self.t.weighted(&[6, 2, 2]) {
            0 => EntryKind::Sync,
            1 => EntryKind::Async,
            _ => EntryKind::Generator,
        };
        let root = Scope {
            vars: vec![],
            assignable: vec![],
            fns: vec![],
            in_async: false,
            in_gen: false,
            in_fn: false,
            loop_depth: 0,
            labels: vec![],
            in_arrow_default: false,
            in_class_field: false,
            this_ok: false,
            super_ok: false,
        };
        self.scopes.push(root);
        let mut src = String::new();
        if self.t.chance(20) {
            self.tag("hashbang");
            src.push_str("#!/usr/bin/env node\n");
        }
        // file level directive prologue
        let file_dir = self.directive(true);
        src.push_str(&file_dir);
        // import declarations (never in executed programs: the module would have to be linked)
        let imports = module && !self.o.exec && self.t.chance(120);
        if imports {
            self.tag("module-import");
            src.push_str("import dflt1, { nm1 as nm2 } from './dep1.js';\n");
        }
        // top-level code (outside any block: documented as not instrumented)
        if self.t.chance(100) {
            self.tag("top-level-code");
            let e = self.expr(2);
            src.push_str(&format!("var top1 = {};\n", Self::arg_text(&e)));
        }
        if let Some(prefix) = self.o.reserved_prefix.clone() {
            if self.t.chance(40) {
                // a top level function whose parameter has a reserved name (no enclosing block sees the parameter list)
                self.tag("reserved-ident");
                self.tag("reserved:top-level-function-parameter");
                src.push_str(&format!("function topz(__datadog_{prefix}_0, q) {{ return q + q() + `${{q}}`; }}\n"));
            } else if self.t.chance(60) {
                // the same for the parameter lists of a top level class (constructors / methods / setters are not `Function` nodes everywhere)
                self.tag("reserved-ident");
                self.tag("reserved:top-level-class-parameter");
                let which = self.t.below(4);
                let p0 = format!("__datadog_{prefix}_0");
                let member = match which {
                    0 => format!("constructor({p0}, q) {{ this.p = q + q() + `${{q}}`; }}"),
                    1 => format!("m({{ k: {p0} }}, q) {{ return q + q() + `${{q}}`; }}"),
                    2 => format!("set sv({p0}) {{ this.k = h() + h(); }}"),
                    _ => format!("static sm(q, ...{p0}) {{ return q + q(); }}"),
                };
                src.push_str(&format!("class TopC {{ {member} }}\n"));
            }
        }
        let params: Vec<String> = ["a", "b", "c", "d", "e"].iter().map(|s| s.to_string()).collect();
        self.push_fn_scope(&params, entry == EntryKind::Async, entry == EntryKind::Generator, false);
        self.scm().vars.push("x".into());
        self.scm().vars.push("y".into());
        self.scm().assignable.push("x".into());
        self.scm().assignable.push("y".into());
        let dir = self.directive(true);
        let n = 1 + self.t.below(self.o.max_stmts.max(1));
        let mut body = String::new();
        body.push_str(&dir);
        body.push_str("let x = a, y = 'y0';\n");
        for _ in 0..n {
            let s = self.stmt(self.o.max_depth, 2);
            body.push_str(&s);
            body.push('\n');
        }
        body.push_str("return [x, y];\n");
        self.scopes.pop();
        let kw = match entry {
            EntryKind::Sync => "function",
            EntryKind::Async => "async function",
            EntryKind::Generator => "function*",
        };
        let export = if module { "export " } else { "" };
        src.push_str(&format!("{export}{kw} f(a, b, c, d, e) {{\n{body}}}\n"));
        if self.t.chance(60) {
            self.tag("top-level-arrow");
            let e = self.expr(2);
            let body = if e.starts_ambiguous() { format!("({})", e.print()) } else { Self::arg_text(&e) };
            src.push_str(&format!("var top2 = (tp) => {};\n", body));
        }
        if self.t.chance(25) {
            // a string statement in the middle of the file (the second file of a concatenated bundle): not a directive
            self.tag("mid-file-string-statement");
            src.push_str("'use strict';\nvar afterMid = 1;\n");
        }
        if module && self.t.flag() {
            if !self.o.exec && self.t.chance(150) {
                // `export default <expression>`: function bodies inside the expression are bodies like any other
                self.tag("export-default-expression");
                let variant = self.t.below(4);
                // (variant 1 is an arrow at the top level: no `new.target` / `this` of a function there)
                self.push_fn_scope(&["p".to_string(), "q".to_string()], variant == 1, false, variant == 1);
                let e1 = self.expr(3);
                let e2 = self.expr(2);
                self.scopes.pop();
                let (e1, e2) = (e1.print(), Self::arg_text(&e2));
                src.push_str(&match variant {
                    0 => format!("export default {{ m(p, q) {{ return {e1}; }}, get g() {{ const p = 1, q = 2; return {e2}; }} }};\n"),
                    1 => format!("export default async (p, q) => {{ const r = {e2}; return {e1}; }};\n"),
                    2 => format!("export default (function (p, q) {{ return {e1}; }});\n"),
                    _ => format!("export default [function (p, q) {{ return {e1}; }}, class {{ m(p, q) {{ return {e2}; }} }}];\n"),
                });
            } else {
                src.push_str("export default f;\n");
            }
        }
        if imports && self.t.flag() {
            // a late import: legal anywhere at the top level of a module
            self.tag("module-late-import");
            src.push_str("import * as ns3 from './dep3.js';\nexport { ns3 };\n");
        }
        if self.o.file_comment_url && self.t.flag() {
            src.push_str("//# sourceMappingURL=t.js.map\n");
        }
        if module {
            self.tag("module");
        }
        let src = self.layout(src);
        Prog { src, tags: self.tags, entry, module, redirected: self.redirected }
    }

    /// replace the soft break markers by white space / new lines / comments
    fn layout(&mut self, src: String) -> String {
        if !src.contains(BRK) {
            return src;
        }
        let noise = self.o.layout_noise;
        let crlf = noise && self.t.chance(30);
        let mut out = String::with_capacity(src.len() + 16);
        for ch in src.chars() {
            if ch == BRK {
                if noise {
                    match self.t.weighted(&[12, 3, 2, 1, 1, 1]) {
                        0 => {}
                        1 => out.push_str("\n    "),
                        2 => out.push_str(" /* c */ "),
                        3 => out.push_str(" // caf\u{e9} \u{1F600}\n\t"),
                        4 => out.push('\t'),
                        _ => out.push_str("\n\n"),
                    }
                }
            } else {
                out.push(ch);
            }
        }
        if crlf {
            self.tags.insert("crlf");
            out = out.replace('\n', "\r\n");
        }
        out
    }
}

pub fn gen_program(tape: &[u8], opts: &GenOpts) -> Prog {
    let mut t = Tape::new(tape);
    Gen::new(&mut t, opts).program()
}

pub fn gen_program_t(t: &mut Tape, opts: &GenOpts) -> Prog {
    Gen::new(t, opts).program()
}
