//! C11: stack traces and locations of rewritten files report original file and line.
//! Histories of rewrite / probe / lookup steps run against the REAL JavaScript package of /repo inside
//! Node (node/stacktrace.js); the native rewriter results are computed here from the current tree.
use crate::cfggen::info_from_json;
use crate::engine::{Check, Ctx, Outcome};
use crate::node;
use crate::rw::{self, MemReader};
use crate::smap::{self, Map, Seg};
use crate::tape::Tape;
use serde_json::{json, Value};

struct ProgOut {
    code: String,
    sites: Vec<String>,
    /// 1-based line -> [first, last] line of the statement it belongs to (multi-line statements only)
    spans: serde_json::Map<String, Value>,
    lines: usize,
}

fn gen_program(t: &mut Tape, modified: bool) -> ProgOut {
    let mut lines: Vec<String> = vec![];
    let mut sites = vec![];
    let mut spans = serde_json::Map::new();
    if t.chance(60) {
        lines.push("'use strict'".into());
    }
    let filler = |t: &mut Tape, lines: &mut Vec<String>| {
        let n = t.below(4);
        for _ in 0..n {
            match t.below(3) {
                0 => lines.push(String::new()),
                1 => lines.push("// a comment line".into()),
                _ => lines.push("var pad = 1".into()),
            }
        }
    };
    filler(t, &mut lines);
    if modified {
        lines.push("function thrower(s) { throw new Error('boom ' + s) }".into());
        // eval code that throws, itself called from eval code: two eval frames in one trace
        lines.push("function evalThrower(s) { return eval('thrower(s)') + s }".into());
    } else {
        lines.push("function thrower(s) { throw new Error(s) }".into());
    }
    let n = 1 + t.below(5);
    for k in 0..n {
        filler(t, &mut lines);
        let name = format!("t{k}");
        let choice = if modified { t.below(12) } else { 100 + t.below(4) };
        match choice {
            0 => lines.push(format!("function {name}(a, b) {{ return a.x.substring(1) + b }}")),
            1 => lines.push(format!("function {name}(a, b) {{ return thrower('{name}' + a.s) }}")),
            2 => lines.push(format!("function {name}(a, b) {{ return `${{a.s}}${{thrower(b)}}` }}")),
            3 => lines.push(format!("function {name}(a, b) {{ return [1].map((v) => thrower(v + a.s))[0] }}")),
            4 => lines.push(format!("function {name}(a, b) {{ return eval('thrower(1)') + a.s }}")),
            5 => {
                let first = lines.len() + 2;
                lines.push(format!("function {name}(a, b) {{"));
                lines.push("  const y = a.s +".into());
                lines.push("    thrower(b)".into());
                lines.push("  return y".into());
                lines.push("}".into());
                // the call on the second line is a copied call expression: its call site resolves to exactly that line
                // (only a frame located on the first line - the injected hook call - may resolve anywhere in the statement)
                spans.insert(first.to_string(), json!([first, first + 1]));
            }
            6 => {
                lines.push(format!("function {name}(a, b) {{"));
                lines.push("  return inner(a.s + b)".into());
                lines.push("  function inner(q) { return thrower(q.trim()) }".into());
                lines.push("}".into());
            }
            7 => {
                lines.push(format!("class C{k} {{"));
                lines.push("  m(a) { return thrower(a.s.concat('z')) }".into());
                lines.push("}".into());
                lines.push(format!("function {name}(a, b) {{ return new C{k}().m(a) }}"));
            }
            8 => lines.push(format!("function {name}(a, b) {{ b = undefined; return b.trim() + a.s }}")),
            10 => lines.push(format!("function {name}(a, b) {{ return eval('evalThrower(a.s)') + a.s }}")),
            // a function made by eval, called back later by someone else: the only trace of the file is the eval origin
            11 => lines.push(format!("function {name}(a, b) {{ const pre = a.s + b; return eval('(function compiled(q) {{ return q.x.y }})') }}")),
            // an error message that itself contains lines looking like stack frames (a wrapped cause, a quoted trace)
            9 => lines.push(format!("function {name}(a, b) {{ throw new Error('wrapped ' + a.s + '\\n    at inner (/nowhere/cause.js:1:1)\\n  at all costs') }}")),
            103 => lines.push(format!("function {name}(a, b) {{ throw new Error('plain\\n    at inner (/nowhere/cause.js:1:1)\\n  at all costs') }}")),
            100 => lines.push(format!("function {name}(a, b) {{ throw new Error('plain') }}")),
            101 => lines.push(format!("function {name}(a, b) {{ return thrower(a.s) }}")),
            _ => lines.push(format!("function {name}(a, b) {{ return a.x.y }}")),
        }
        sites.push(name);
    }
    filler(t, &mut lines);
    lines.push(format!("module.exports = {{ {} }}", sites.join(", ")));
    let n = lines.len();
    ProgOut { code: lines.join("\n") + "\n", sites, spans, lines: n }
}

/// a transpiler-like original map: every JS line L maps (all its segments) to line 2L+5 of one source
fn original_map(t: &mut Tape, lines: usize, source: &str, root: Option<&str>) -> (Value, serde_json::Map<String, Value>) {
    let mut segs = vec![];
    let mut line_of = serde_json::Map::new();
    let stretch = 1 + t.below(3) as u32;
    let offset = t.below(7) as u32;
    // a bundle: the second half of the lines comes from a second source
    let two = t.flag();
    let second = format!("{}.part2.ts", source.trim_end_matches(".ts"));
    let mut source_of = serde_json::Map::new();
    for l in 0..lines as u32 {
        let ol = l * stretch + offset;
        let si = if two && l as usize >= lines / 2 { 1 } else { 0 };
        segs.push(Seg { gen_line: l, gen_col: 0, src: Some((si, ol, 0, None)) });
        if t.flag() {
            segs.push(Seg { gen_line: l, gen_col: 9, src: Some((si, ol, 4 + t.below(9) as u32, None)) });
        }
        line_of.insert((l + 1).to_string(), json!(ol + 1));
        source_of.insert((l + 1).to_string(), json!(if si == 1 { second.clone() } else { source.to_string() }));
    }
    let sources = if two { vec![source.to_string(), second] } else { vec![source.to_string()] };
    let m = Map { version: 3, sources, names: vec![], source_root: root.map(|s| s.to_string()), segs, has_sections: false };
    line_of.insert("$sourceOf".into(), Value::Object(source_of));
    (smap::encode_map(&m, &json!({"file": "x.js"})), line_of)
}

pub struct C11;

impl Check for C11 {
    fn id(&self) -> &'static str {
        "C11"
    }
    fn max_tape(&self) -> usize {
        400
    }
    fn decode(&self, tape: &[u8], _stream: usize) -> Value {
        let mut t = Tape::new(tape);
        // (small choice first) one history in three uses file names outside ASCII
        let files = [
            ["/virt/app/a.js", "/virt/app/lib/b.js"],
            ["/virt/app/caf\u{e9}/\u{f1}u.js", "/virt/app/lib/b.js"],
            ["/virt/app/a.js", "/virt/app/lib/\u{540d}\u{524d} \u{1F600}.js"],
            // a file directly under the root; `$` sequences that mean something to String.prototype.replace
            ["/top.js", "/virt/app/lib/b.js"],
            ["/virt/app/a.js", "/virt/app/$&x/c$$d $' e.js"],
        ][t.below(5)];
        let base_cfg = json!({
            "localVarPrefix": "test",
            "csiMethods": [
                {"src": "plusOperator", "operator": true}, {"src": "tplOperator", "operator": true},
                {"src": "substring"}, {"src": "trim"}, {"src": "concat"}
            ]
        });
        let nsteps = 2 + t.below(10);
        let mut steps: Vec<Value> = vec![];
        let mut rewritten: Vec<&str> = vec![];
        for _ in 0..nsteps {
            let file = files[t.below(2)];
            match t.weighted(&[4, 5, 1, 1]) {
                0 if !rewritten.is_empty() && t.chance(3) => {
                    // a long-running process: more than a thousand other files are rewritten before the next look-up
                    steps.push(json!({"op": "flood", "n": 1100, "code": "function g(a, b) { return a + b }\nmodule.exports = { g }\n", "config": base_cfg.clone()}));
                }
                0 => {
                    let kind = t.weighted(&[5, 2, 2, 1]); // modified, not modified, chained, syntax error
                    let p = gen_program(&mut t, kind != 1);
                    let mut cfg = base_cfg.clone();
                    let mut code = p.code.clone();
                    let mut orig = Value::Null;
                    if kind == 2 {
                        cfg["chainSourceMap"] = json!(true);
                        let source = *t.pick(&["../src/a.ts", "a.ts", "sub/dir/c.ts", "../src/m\u{f3}dulo \u{540d}.ts", "/home/dev/proj/src/abs.ts", "webpack://pkg/./src/url.ts"]);
                        // sometimes the sources are relative to a sourceRoot (not the absolute path / the URL)
                        let root = if source.starts_with('/') || source.contains("://") { None } else { *t.pick(&[None, None, Some("../root"), Some("lib/")]) };
                        let (m, line_of) = original_map(&mut t, p.lines, source, root);
                        // the reference as a line comment, a line comment followed by blanks, or a block comment
                        let b64 = smap::encode_base64(m.to_string().as_bytes());
                        match t.below(4) {
                            0 => code.push_str(&format!("//# sourceMappingURL=data:application/json;base64,{b64} \t\n")),
                            1 => code.push_str(&format!("/*# sourceMappingURL=data:application/json;base64,{b64} */\n")),
                            _ => code.push_str(&format!("//# sourceMappingURL=data:application/json;base64,{b64}\n")),
                        }
                        let mut line_of = line_of;
                        let source_of = line_of.remove("$sourceOf").unwrap_or(Value::Null);
                        // expected paths: the source resolved against the sourceRoot
                        let with_root = |s: &str| match root {
                            Some(r) if r.ends_with('/') => format!("{r}{s}"),
                            Some(r) => format!("{r}/{s}"),
                            None => s.to_string(),
                        };
                        let source_of = match source_of {
                            Value::Object(m) => Value::Object(m.into_iter().map(|(k, v)| (k, json!(with_root(v.as_str().unwrap_or(""))))).collect()),
                            x => x,
                        };
                        orig = json!({"source": with_root(source), "lineOf": line_of, "sourceOf": source_of});
                    }
                    if kind == 3 {
                        code = "function broken( {\n".into();
                    }
                    if kind == 0 && t.chance(4) {
                        // a bundle of more than 512 KiB (the padding is a comment behind the program)
                        code.push_str("/* ");
                        code.push_str(&"padding of a big bundle ".repeat(23_000));
                        code.push_str("*/\n");
                    }
                    if kind == 1 && t.chance(100) {
                        // a file that is not modified and ends with a reference of its own (missing external map / inline map)
                        if t.flag() {
                            code.push_str("//# sourceMappingURL=not-shipped.js.map\n");
                        } else {
                            let m = r#"{"version":3,"sources":["elsewhere.ts"],"names":[],"mappings":"AAKA;AACA;AACA;AACA;AACA;AACA;AACA;AACA"}"#;
                            code.push_str(&format!("//# sourceMappingURL=data:application/json;base64,{}\n", smap::encode_base64(m.as_bytes())));
                        }
                    }
                    steps.push(json!({"op": "rewrite", "file": file, "code": code, "config": cfg, "spans": p.spans, "origMap": orig, "sites": p.sites, "kind": kind}));
                    if kind != 3 {
                        rewritten.push(file);
                        // usually probe right after
                        let nprobe = t.below(3);
                        for _ in 0..nprobe {
                            let site = p.sites[t.below(p.sites.len())].clone();
                            steps.push(json!({"op": "probe", "file": file, "site": site}));
                        }
                    }
                }
                1 => {
                    if rewritten.contains(&file) {
                        steps.push(json!({"op": "probe", "file": file, "site": format!("t{}", t.below(3))}));
                    }
                }
                2 => {
                    let path = *t.pick(&["/nonexistent/x.js", "/", "/etc", "/etc/hostname", "relative.js", "/virt/app/never.js"]);
                    steps.push(json!({"op": "lookup", "path": path, "line": 1 + t.below(30), "col": t.below(40), "expectIdentity": true}));
                }
                _ => {
                    if rewritten.contains(&file) {
                        steps.push(json!({"op": "diskLookup", "file": file, "line": 1 + t.below(20), "col": t.below(30)}));
                    }
                }
            }
        }
        json!({"steps": steps})
    }
    fn rule(&self) -> String {
        "stateful: histories (2-12 steps) over two file names of rewrite(file, program_i) [modified / not modified / chained through a generated transpiler-like \
         original map / syntax error; one statement per line, throw sites at generator-known lines: property access on null, realm thrower inside instrumented \
         operands, templates, callbacks, eval code, nested functions, class methods, a multi-line statement], probe(file, site), lookup(unknown path), \
         diskLookup(file). System under test: the real main.js + js/source-map + js/stack-trace of /repo in Node (wasm boundary replaced by a shim replaying the \
         natively computed result, lru-cache vendored). Oracle (model + differential): the unrewritten program run under the same path with plain V8 gives the \
         expected (function, line) frames; the rewritten one under getPrepareStackTrace(userHandler) (structured call sites) and getPrepareStackTrace(undefined) \
         (string formatting) must report for every frame of the file the expected path (join(dirname(file), source) when chained) and line (within the statement's \
         span for the multi-line statement), leave frames of other files identical, handle eval origins, and never throw; after a re-rewrite the newest map is used; \
         non-trivial = distinct history with >= 2 rewrites of one file followed by a probe, or an eval / chained probe"
            .into()
    }
    fn assumptions(&self) -> Vec<String> {
        vec![
            "the WebAssembly boundary is replaced by a shim that replays the result computed natively from the current tree (no wasm32 target / wasm-pack in the image)".into(),
            "columns are not compared for frames inside the rewritten file (the statement speaks of path and line)".into(),
        ]
    }
    fn eval(&self, case: &Value, ctx: &mut Ctx) -> Outcome {
        let mut steps = case["steps"].as_array().cloned().unwrap_or_default();
        let mut rewrites_per_file: std::collections::BTreeMap<String, u32> = Default::default();
        let mut nontrivial = false;
        let mut classes = vec![];
        for s in steps.iter_mut() {
            match s["op"].as_str().unwrap_or("") {
                "rewrite" => {
                    let cfg = info_from_json(&s["config"]);
                    let code = s["code"].as_str().unwrap_or("").to_string();
                    let file = s["file"].as_str().unwrap_or("").to_string();
                    let out = rw::rewrite(&rw::make_config(&cfg.json), &code, &file, &MemReader::default());
                    let native = match &out {
                        rw::Outcome::Ok(v) => json!({"ok": v}),
                        rw::Outcome::Err(e) => json!({"err": e}),
                        rw::Outcome::Panic(_) => return Outcome::skip("rewriter panicked (C13)"),
                    };
                    classes.push(format!("rewrite:{}", out.status()));
                    s["native"] = native;
                    *rewrites_per_file.entry(file).or_insert(0) += 1;
                    if s["kind"] == json!(2) {
                        nontrivial = true;
                    }
                }
                "flood" => {
                    let cfg = info_from_json(&s["config"]);
                    let code = s["code"].as_str().unwrap_or("").to_string();
                    let out = rw::rewrite(&rw::make_config(&cfg.json), &code, "/virt/flood/f.js", &MemReader::default());
                    match &out {
                        rw::Outcome::Ok(v) => s["native"] = json!({"ok": v}),
                        _ => return Outcome::skip("flood program not rewritten"),
                    }
                    classes.push("flood".to_string());
                }
                "probe" => {
                    let file = s["file"].as_str().unwrap_or("");
                    if rewrites_per_file.get(file).copied().unwrap_or(0) >= 2 {
                        nontrivial = true;
                    }
                }
                _ => {}
            }
        }
        let req = json!({"cmd": "stack", "steps": steps});
        let resp = match node::call(ctx, &req) {
            Ok(r) => r,
            Err(e) => return Outcome::inconclusive(format!("node worker: {e}")),
        };
        if let Some(e) = resp.get("error") {
            return Outcome::inconclusive(format!("node worker error: {}", e.as_str().unwrap_or("").chars().take(200).collect::<String>()));
        }
        let problems = resp["problems"].as_array().cloned().unwrap_or_default();
        if let Some(p) = problems.first() {
            let kind = p["kind"].as_str().unwrap_or("problem");
            if kind == "harness" {
                return Outcome::inconclusive(format!("worker harness problem: {}", p["detail"].as_str().unwrap_or("").chars().take(200).collect::<String>()));
            }
            return Outcome::fail(kind.to_string(), p.to_string());
        }
        if resp["notes"]["evalFrames"].as_u64().unwrap_or(0) > 0 {
            nontrivial = true;
        }
        let probes = resp["notes"]["probes"].as_u64().unwrap_or(0);
        classes.push(format!("probes:{}", probes.min(5)));
        Outcome::pass(nontrivial && probes >= 1, classes)
    }
}
