//! Own source-map codec (Base64, Base64-VLQ, version-3 decoding / encoding, greatest-lower-bound
//! lookup, composition). Independent of the `sourcemap` crate used by the code under test.
use serde_json::{json, Value};

const B64: &[u8; 64] = b"ABCDEFGHIJKLMNOPQRSTUVWXYZabcdefghijklmnopqrstuvwxyz0123456789+/";

pub fn encode_base64(data: &[u8]) -> String {
    let mut out = String::with_capacity(data.len() * 4 / 3 + 4);
    for chunk in data.chunks(3) {
        let b = [chunk[0], *chunk.get(1).unwrap_or(&0), *chunk.get(2).unwrap_or(&0)];
        out.push(B64[(b[0] >> 2) as usize] as char);
        out.push(B64[(((b[0] & 3) << 4) | (b[1] >> 4)) as usize] as char);
        if chunk.len() > 1 {
            out.push(B64[(((b[1] & 15) << 2) | (b[2] >> 6)) as usize] as char);
        } else {
            out.push('=');
        }
        if chunk.len() > 2 {
            out.push(B64[(b[2] & 63) as usize] as char);
        } else {
            out.push('=');
        }
    }
    out
}

fn b64_val(c: u8) -> Option<u32> {
    match c {
        b'A'..=b'Z' => Some((c - b'A') as u32),
        b'a'..=b'z' => Some((c - b'a') as u32 + 26),
        b'0'..=b'9' => Some((c - b'0') as u32 + 52),
        b'+' => Some(62),
        b'/' => Some(63),
        _ => None,
    }
}

pub fn decode_base64(s: &str) -> Option<Vec<u8>> {
    let bytes: Vec<u8> = s.trim_end().bytes().collect();
    let trimmed: &[u8] = {
        let mut end = bytes.len();
        while end > 0 && bytes[end - 1] == b'=' {
            end -= 1;
        }
        &bytes[..end]
    };
    let mut out = Vec::with_capacity(trimmed.len() * 3 / 4);
    let mut acc = 0u32;
    let mut bits = 0;
    for &c in trimmed {
        let v = b64_val(c)?;
        acc = (acc << 6) | v;
        bits += 6;
        if bits >= 8 {
            bits -= 8;
            out.push((acc >> bits) as u8);
            acc &= (1 << bits) - 1;
        }
    }
    Some(out)
}

#[derive(Clone, Debug, PartialEq, Eq)]
pub struct Seg {
    pub gen_line: u32,
    pub gen_col: u32,
    /// (source index, original line, original column, name index)
    pub src: Option<(u32, u32, u32, Option<u32>)>,
}

#[derive(Clone, Debug, Default)]
pub struct Map {
    pub version: i64,
    pub sources: Vec<String>,
    pub names: Vec<String>,
    pub source_root: Option<String>,
    pub segs: Vec<Seg>,
    pub has_sections: bool,
}

fn vlq_decode(chars: &[u8], pos: &mut usize) -> Result<i64, String> {
    let mut result: i64 = 0;
    let mut shift = 0;
    loop {
        let c = *chars.get(*pos).ok_or("truncated VLQ")?;
        *pos += 1;
        let d = b64_val(c).ok_or_else(|| format!("bad VLQ char {:?}", c as char))? as i64;
        result |= (d & 31) << shift;
        shift += 5;
        if d & 32 == 0 {
            break;
        }
        if shift > 60 {
            return Err("VLQ overflow".into());
        }
    }
    let neg = result & 1 == 1;
    let v = result >> 1;
    Ok(if neg { -v } else { v })
}

pub fn parse_map(json_text: &str) -> Result<Map, String> {
    let v: Value = serde_json::from_str(json_text).map_err(|e| format!("map is not JSON: {e}"))?;
    parse_map_value(&v)
}

pub fn parse_map_value(v: &Value) -> Result<Map, String> {
    let mut m = Map { version: v["version"].as_i64().unwrap_or(-1), ..Default::default() };
    if v.get("sections").is_some() {
        m.has_sections = true;
        return Ok(m);
    }
    m.sources = v["sources"].as_array().map(|a| a.iter().map(|s| s.as_str().unwrap_or("").to_string()).collect()).unwrap_or_default();
    m.names = v["names"].as_array().map(|a| a.iter().map(|s| s.as_str().unwrap_or("").to_string()).collect()).unwrap_or_default();
    m.source_root = v["sourceRoot"].as_str().map(|s| s.to_string());
    let mappings = v["mappings"].as_str().ok_or("no mappings string")?;
    let bytes = mappings.as_bytes();
    let (mut line, mut col) = (0u32, 0i64);
    let (mut si, mut ol, mut oc, mut ni) = (0i64, 0i64, 0i64, 0i64);
    let mut pos = 0;
    while pos < bytes.len() {
        match bytes[pos] {
            b';' => {
                line += 1;
                col = 0;
                pos += 1;
            }
            b',' => pos += 1,
            _ => {
                col += vlq_decode(bytes, &mut pos)?;
                let mut src = None;
                if pos < bytes.len() && bytes[pos] != b',' && bytes[pos] != b';' {
                    si += vlq_decode(bytes, &mut pos)?;
                    ol += vlq_decode(bytes, &mut pos)?;
                    oc += vlq_decode(bytes, &mut pos)?;
                    let mut name = None;
                    if pos < bytes.len() && bytes[pos] != b',' && bytes[pos] != b';' {
                        ni += vlq_decode(bytes, &mut pos)?;
                        name = Some(ni as u32);
                    }
                    if si < 0 || ol < 0 || oc < 0 || ni < 0 {
                        return Err("negative index in mappings".into());
                    }
                    src = Some((si as u32, ol as u32, oc as u32, name));
                }
                if col < 0 {
                    return Err("negative generated column".into());
                }
                m.segs.push(Seg { gen_line: line, gen_col: col as u32, src });
            }
        }
    }
    Ok(m)
}

fn vlq_encode(out: &mut String, v: i64) {
    let mut n = if v < 0 { ((-v) << 1) | 1 } else { v << 1 } as u64;
    loop {
        let mut d = (n & 31) as usize;
        n >>= 5;
        if n > 0 {
            d |= 32;
        }
        out.push(B64[d] as char);
        if n == 0 {
            break;
        }
    }
}

/// encode a map (segments must be sorted by generated position)
pub fn encode_map(m: &Map, extra: &Value) -> Value {
    let mut s = String::new();
    let mut line = 0u32;
    let (mut pc, mut psi, mut pol, mut poc, mut pni) = (0i64, 0i64, 0i64, 0i64, 0i64);
    let mut first_in_line = true;
    for seg in &m.segs {
        while line < seg.gen_line {
            s.push(';');
            line += 1;
            pc = 0;
            first_in_line = true;
        }
        if !first_in_line {
            s.push(',');
        }
        first_in_line = false;
        vlq_encode(&mut s, seg.gen_col as i64 - pc);
        pc = seg.gen_col as i64;
        if let Some((si, ol, oc, name)) = seg.src {
            vlq_encode(&mut s, si as i64 - psi);
            psi = si as i64;
            vlq_encode(&mut s, ol as i64 - pol);
            pol = ol as i64;
            vlq_encode(&mut s, oc as i64 - poc);
            poc = oc as i64;
            if let Some(n) = name {
                vlq_encode(&mut s, n as i64 - pni);
                pni = n as i64;
            }
        }
    }
    let mut v = json!({"version": 3, "sources": m.sources, "names": m.names, "mappings": s});
    if let Some(r) = &m.source_root {
        v["sourceRoot"] = json!(r);
    }
    if let Some(o) = extra.as_object() {
        for (k, x) in o {
            v[k] = x.clone();
        }
    }
    v
}

impl Map {
    /// greatest segment whose generated position is <= (line, col), in (line, col) order
    pub fn lookup_glb(&self, line: u32, col: u32) -> Option<&Seg> {
        let mut best: Option<&Seg> = None;
        for s in &self.segs {
            if (s.gen_line, s.gen_col) <= (line, col) {
                match best {
                    Some(b) if (b.gen_line, b.gen_col) > (s.gen_line, s.gen_col) => {}
                    _ => best = Some(s),
                }
            }
        }
        best
    }

    /// greatest segment on the same line with column <= col
    pub fn lookup_same_line(&self, line: u32, col: u32) -> Option<&Seg> {
        self.segs.iter().filter(|s| s.gen_line == line && s.gen_col <= col).max_by_key(|s| s.gen_col)
    }

    pub fn source_name(&self, idx: u32) -> String {
        let s = self.sources.get(idx as usize).cloned().unwrap_or_default();
        match &self.source_root {
            Some(r) if !r.is_empty() => {
                if r.ends_with('/') {
                    format!("{r}{s}")
                } else {
                    format!("{r}/{s}")
                }
            }
            _ => s,
        }
    }
}

/// (line, utf16 column) of every byte offset of `text`: returns a function-like table
pub struct LineTable {
    /// byte offset of the start of each line
    starts: Vec<usize>,
    text: String,
}

impl LineTable {
    pub fn new(text: &str) -> Self {
        Self::with_terminators(text, true)
    }

    /// `unicode_terminators == false`: only \n, \r\n and \r end a line - the convention of the rewriter's own line table
    /// (and of its maps, on the input and on the output side alike); used for files that hold a raw U+2028 / U+2029
    pub fn with_terminators(text: &str, unicode_terminators: bool) -> Self {
        let mut starts = vec![0];
        let b = text.as_bytes();
        let mut i = 0;
        while i < b.len() {
            // swc (and the source map convention used here) treat \n, \r\n as line breaks; \r alone, U+2028/2029 as well in JS
            if b[i] == b'\n' {
                starts.push(i + 1);
            } else if b[i] == b'\r' {
                if i + 1 < b.len() && b[i + 1] == b'\n' {
                    starts.push(i + 2);
                    i += 1;
                } else {
                    starts.push(i + 1);
                }
            } else if unicode_terminators && b[i] == 0xE2 && i + 2 < b.len() && b[i + 1] == 0x80 && (b[i + 2] == 0xA8 || b[i + 2] == 0xA9) {
                starts.push(i + 3);
                i += 2;
            }
            i += 1;
        }
        LineTable { starts, text: text.to_string() }
    }

    pub fn lines(&self) -> usize {
        self.starts.len()
    }

    /// (0-based line, utf16 column, char column)
    pub fn locate(&self, offset: usize) -> (u32, u32, u32) {
        let offset = offset.min(self.text.len());
        let line = match self.starts.binary_search(&offset) {
            Ok(i) => i,
            Err(i) => i - 1,
        };
        let start = self.starts[line];
        let mut end = offset;
        while end > start && !self.text.is_char_boundary(end) {
            end -= 1;
        }
        let slice = &self.text[start..end];
        let utf16: usize = slice.chars().map(|c| c.len_utf16()).sum();
        let chars = slice.chars().count();
        (line as u32, utf16 as u32, chars as u32)
    }

    pub fn line_len_utf16(&self, line: usize) -> u32 {
        let start = self.starts[line];
        let end = if line + 1 < self.starts.len() { self.starts[line + 1] } else { self.text.len() };
        let s = self.text[start..end].trim_end_matches(['\n', '\r', '\u{2028}', '\u{2029}']);
        s.chars().map(|c| c.len_utf16()).sum::<usize>() as u32
    }
}
