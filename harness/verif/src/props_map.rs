//! C09 (embedded source map resolves to the right original place) and C10 (chained map == composition;
//! trailer / comment handling), both with the harness' own decoder (smap.rs).
use crate::analysis::{analyze_outcome, split_trailer};
use crate::ast;
use crate::cfggen::{gen_cfg, info_from_json, CfgOpts};
use crate::engine::{Check, Ctx, Outcome};
use crate::erase::{ident_name, ty};
use crate::gen::gen_program_t;
use crate::props_static::{case_parts, opts_for, owner_of};
use crate::rw::{self, MemReader, ReadOutcome};
use crate::smap::{self, LineTable, Map, Seg};
use crate::tape::Tape;
use serde_json::{json, Value};

fn tags_of(case: &Value) -> Vec<String> {
    case["tags"].as_array().map(|a| a.iter().filter_map(|t| t.as_str().map(|s| s.to_string())).collect()).unwrap_or_default()
}

pub fn decode_trailer(payload: &str) -> Result<(Map, Value), String> {
    let bytes = smap::decode_base64(payload).ok_or("trailer is not valid base64")?;
    let text = String::from_utf8(bytes).map_err(|_| "trailer is not UTF-8")?;
    let v: Value = serde_json::from_str(&text).map_err(|e| format!("trailer is not JSON: {e}"))?;
    let m = smap::parse_map_value(&v)?;
    Ok((m, v))
}

fn span_range(v: &Value, key: &str, base: u32) -> Option<(usize, usize)> {
    let s = v.get(key)?;
    let a = s["start"].as_u64()? as u32;
    let b = s["end"].as_u64()? as u32;
    if a < base || b < a {
        return None;
    }
    Some(((a - base) as usize, (b - base) as usize))
}

struct Collected {
    /// (name, input offset, output offset)
    idents: Vec<(String, usize, usize)>,
    /// statements: (output start, output end, input start, input end)
    stmts: Vec<(usize, usize, usize, usize)>,
}

fn collect(v: &Value, in_base: u32, out_base: u32, c: &mut Collected, parent_key: &str, parent_ty: &str) {
    match v {
        Value::Object(m) => {
            let t = ty(v);
            if t == "Identifier" {
                if let (Some(n), Some(i), Some(o)) = (ident_name(v), span_range(v, "$span", in_base), span_range(v, "$ospan", out_base)) {
                    // variable references and bindings (not member names / property keys / labels)
                    let is_name = (parent_ty == "MemberExpression" && parent_key == "property") || parent_key == "key" || parent_key == "label";
                    if !is_name && i.1 > i.0 {
                        c.idents.push((n.to_string(), i.0, o.0));
                    }
                }
            }
            if t.ends_with("Statement") || t.ends_with("Declaration") {
                if let (Some(i), Some(o)) = (span_range(v, "$span", in_base), span_range(v, "$ospan", out_base)) {
                    if v.get("$arrowExprBody").is_none() && o.1 > o.0 {
                        c.stmts.push((o.0, o.1, i.0, i.1));
                    }
                }
            }
            for (k, x) in m {
                if k.starts_with('$') {
                    continue;
                }
                collect(x, in_base, out_base, c, k, t);
            }
        }
        Value::Array(a) => {
            for x in a {
                collect(x, in_base, out_base, c, parent_key, parent_ty);
            }
        }
        _ => {}
    }
}

pub struct C09;

impl Check for C09 {
    fn id(&self) -> &'static str {
        "C09"
    }
    fn decode(&self, tape: &[u8], _stream: usize) -> Value {
        let mut t = Tape::new(tape);
        let file = *t.pick(&["/app/src/gen.js", "gen.js", "/a b/ñ/gen file.js", "./rel/x.y.js", "C:\\\\dir\\\\win.js", "/deep/a/b/c/d/e.mjs", "noext", "/app/lib/issue#12.js", "/app/c#/string-utils.js", "/app/a.mjs?iitm=true", "/app/%41/b c.js", "/app/back\\slash.js", "/app/qu\"ote\\x.js", "/app/caf\u{e9}/\u{540d}\u{524d}.js", "/app/tab\there.js", "<anonymous>", "<stdin>.js", "[eval]", "evalmachine.<anonymous>"]);
        let comments = t.flag();
        // the input carries no map reference: with chaining on, the plain rewrite map must be emitted all the same
        let chain = t.flag();
        // an earlier rewrite on the same thread (a file that is not modified and refers to a map of its own) must not matter
        let warmup = t.chance(60);
        let big = t.chance(6);
        let mut cfg = gen_cfg(&mut t, &CfgOpts { fixed_prefix: true, rich: true });
        let mut j = cfg.json.clone();
        j["comments"] = json!(comments);
        j["chainSourceMap"] = json!(chain);
        cfg = info_from_json(&j);
        let mut o = opts_for(&cfg, false);
        o.allow_module = true;
        o.layout_noise = true;
        let p = gen_program_t(&mut t, &o);
        let mut tags: Vec<&str> = p.tags.iter().copied().collect();
        let mut src = p.src;
        if big {
            // a file of more than 256 KiB / 512 KiB (a bundle): the padding is a trailing comment, the program is the same
            tags.push("big-file");
            src.push_str("\n/* ");
            src.push_str(&"padding of a big bundle ".repeat(if t.flag() { 11_500 } else { 23_000 }));
            src.push_str("*/\n");
        }
        match t.below(12) {
            // a `sourceURL` pragma (what eval'd / generated scripts carry): it does not rename the source of the map
            0 => {
                tags.push("source-url-pragma");
                src.push_str("//# sourceURL=other-name.js\n");
            }
            1 => {
                tags.push("source-url-pragma");
                src = format!("/*# sourceURL=webpack://pkg/./src/block.js */\n{src}");
            }
            // raw U+2028 / U+2029 inside string literals (legal since ES2019): the rewriter's line table does not count them
            // as line ends, neither on the input nor on the output side; the oracle follows that convention for such files
            2 => {
                if src.contains("'s'") {
                    tags.push("raw-line-separator-in-string");
                    src = src.replace("'s'", "'\u{2028}s\u{2029}'");
                }
            }
            _ => {}
        }
        json!({"src": src, "cfg": cfg.json, "file": file, "tags": tags, "warmup": warmup})
    }
    fn rule(&self) -> String {
        "programs with layout noise (multi-line operands, operators at line ends, CRLF, tabs, non-ASCII BMP and astral characters in comments/strings, hashbang) x any \
         file path x comments on/off; oracle with the harness' own decoder: version 3, sources == [basename(file)], every segment inside the input text; every \
         variable reference / binding that survives erasure resolves (greatest lower bound) from its generated position to exactly its original line and column; \
         every segment inside an output statement maps into the line span of the corresponding input statement (injected `let`: enclosing block); \
         non-trivial = distinct modified case with an instrumented statement spanning >= 2 input lines or a non-ASCII character before a copied identifier on its line"
            .into()
    }
    fn assumptions(&self) -> Vec<String> {
        vec![
            "columns are compared in UTF-16 units; on lines containing astral characters either UTF-16 or code point columns are accepted".into(),
            "prologue tokens are only required to carry no mapping or one inside the file".into(),
        ]
    }
    fn eval(&self, case: &Value, _ctx: &mut Ctx) -> Outcome {
        let (src, cfg, file) = case_parts(case);
        let mut classes = tags_of(case);
        if case["warmup"] == json!(true) {
            // same thread, same configuration: a file that stays unmodified and carries an inline map of its own
            let decoy_map = r#"{"version":3,"sources":["decoy.ts"],"names":[],"mappings":"AAAA;AACA"}"#;
            let decoy = format!("var k = 1;\n//# sourceMappingURL=data:application/json;base64,{}\n", smap::encode_base64(decoy_map.as_bytes()));
            let _ = rw::rewrite_simple(&cfg.json, &decoy, "/app/src/decoy.js");
            classes.push("warm-up rewrite before".into());
        }
        let outcome = rw::rewrite_simple(&cfg.json, &src, &file);
        match &outcome {
            rw::Outcome::Err(_) => return Outcome::skip("rewriter returned an error"),
            rw::Outcome::Panic(_) => return Outcome::skip("rewriter panicked (C13)"),
            _ => {}
        }
        if !outcome.is_modified() {
            return Outcome::pass(false, vec!["status:notmodified".into()]);
        }
        let a = analyze_outcome(&src, &cfg, outcome);
        let Some(payload) = &a.trailer else { return Outcome::fail("trailer-missing", "modified output without trailer") };
        let (map, raw) = match decode_trailer(payload) {
            Ok(x) => x,
            Err(e) => return Outcome::fail("map-invalid", e),
        };
        if map.version != 3 {
            return Outcome::fail("map-version", format!("version is {}", raw["version"]));
        }
        let base_name = std::path::Path::new(&file).file_name().and_then(|s| s.to_str()).unwrap_or("").to_string();
        if map.sources != vec![base_name.clone()] {
            return Outcome::fail("map-sources", format!("sources are {:?}, expected [{:?}] for file {:?}", map.sources, base_name, file));
        }
        let raw_ls = src.contains('\u{2028}') || src.contains('\u{2029}');
        let in_table = LineTable::with_terminators(&src, !raw_ls);
        for s in &map.segs {
            if let Some((si, l, c, _)) = s.src {
                if si != 0 {
                    return Outcome::fail("map-source-index", format!("segment with source index {si}"));
                }
                if l as usize >= in_table.lines() || c > in_table.line_len_utf16(l as usize) {
                    return Outcome::fail(
                        "mapping-outside-input",
                        format!(
                            "segment at generated {}:{} maps to {}:{} but the input has {} lines{}",
                            s.gen_line,
                            s.gen_col,
                            l,
                            c,
                            in_table.lines(),
                            if (l as usize) < in_table.lines() { format!(" and line {} has {} UTF-16 units", l, in_table.line_len_utf16(l as usize)) } else { String::new() }
                        ),
                    );
                }
            }
        }
        let (Ok(sp), Some(Ok(op))) = (&a.src, &a.out) else { return Outcome::skip("unparsable input or output") };
        let er = match a.erased.as_ref().unwrap() {
            Ok(er) => er,
            Err(e) => return Outcome::skip(format!("round trip failed: {} ({})", e.sig, owner_of(&e.sig))),
        };
        let body = a.body.as_ref().unwrap();
        let out_table = LineTable::with_terminators(body, !raw_ls);
        let mut col = Collected { idents: vec![], stmts: vec![] };
        collect(&er.input, sp.base, op.base, &mut col, "", "");
        let mut nontrivial = false;
        // (c) copied identifiers
        for (name, in_off, out_off) in &col.idents {
            let (ol, oc16, occh) = out_table.locate(*out_off);
            let (il, ic16, icch) = in_table.locate(*in_off);
            let hit = map.lookup_glb(ol, oc16).or_else(|| map.lookup_glb(ol, occh));
            let candidates: Vec<&Seg> = [map.lookup_glb(ol, oc16), map.lookup_glb(ol, occh)].into_iter().flatten().collect();
            let ok = candidates.iter().any(|s| match s.src {
                Some((_, l, c, _)) => l == il && (c == ic16 || c == icch),
                None => false,
            });
            if !ok {
                return Outcome::fail(
                    "identifier-position",
                    format!(
                        "identifier `{name}` at generated {}:{} resolves to {:?} but its original position is {}:{}",
                        ol,
                        oc16,
                        hit.map(|s| s.src),
                        il,
                        ic16
                    ),
                );
            }
            if ic16 != icch || icch as usize != src[..*in_off].rsplit('\n').next().map(|l| l.len()).unwrap_or(0) {
                nontrivial = true;
            }
        }
        // (d) every segment inside an output statement maps into the line span of the corresponding input statement
        let mut starts_injected: Vec<(u32, u32)> = vec![];
        let mut ranges: Vec<((u32, u32), (u32, u32), u32, u32, usize)> = col
            .stmts
            .iter()
            .map(|(os, oe, is, ie)| {
                let (sl, sc, _) = out_table.locate(*os);
                let (el, ec, _) = out_table.locate(*oe);
                let (il, _, _) = in_table.locate(*is);
                let (ih, _, _) = in_table.locate(ie.saturating_sub(1).max(*is));
                // does the statement now begin with injected code (`(__datadog_x_0 = ..`, `_ddiast.hook(..`)?
                let head = body.get(*os..).unwrap_or("");
                if head.starts_with("(__datadog_") || head.starts_with("_ddiast.") {
                    starts_injected.push((sl, sc));
                }
                ((sl, sc), (el, ec), il, ih, oe - os)
            })
            .collect();
        ranges.sort_by_key(|r| r.4);
        // comments of the input are printed where the printer finds room for them (a comment that follows a block can end
        // up inside the injected declaration of that block): their own mappings are not mappings of injected code
        let comment_ranges: Vec<((u32, u32), (u32, u32))> = op
            .comments
            .iter()
            .map(|(off, is_block, text)| {
                let start = *off as usize;
                let end = start + text.len() + if *is_block { 4 } else { 2 };
                let (sl, sc, _) = out_table.locate(start);
                let (el, ec, _) = out_table.locate(end.min(body.len()));
                ((sl, sc), (el, ec))
            })
            .collect();
        for s in &map.segs {
            let Some((_, l, _, _)) = s.src else { continue };
            let p = (s.gen_line, s.gen_col);
            if comment_ranges.iter().any(|(a, b)| *a <= p && p <= *b) {
                continue;
            }
            if let Some(r) = ranges.iter().find(|r| r.0 <= p && p < r.1) {
                if l < r.2 || l > r.3 {
                    return Outcome::fail(
                        "statement-line-span",
                        format!("segment at generated {}:{} maps to line {} but the statement it belongs to spans input lines {}..{}", s.gen_line, s.gen_col, l, r.2, r.3),
                    );
                }
                if r.3 > r.2 {
                    nontrivial = true;
                }
            }
        }
        // (e) when an output statement begins with injected code, the position of its first token resolves (greatest lower
        // bound, what a consumer does with a run-time position) into the line span of the corresponding input statement
        for r in &ranges {
            let ((sl, sc), _, il, ih, _) = *r;
            if !starts_injected.contains(&(sl, sc)) {
                continue;
            }
            match map.lookup_glb(sl, sc) {
                Some(seg) => {
                    if let Some((_, l, _, _)) = seg.src {
                        if l < il || l > ih {
                            return Outcome::fail(
                                "statement-start-resolves-elsewhere",
                                format!("the first token of the statement at generated {sl}:{sc} resolves to input line {l} (segment at {}:{}), but the statement spans input lines {il}..{ih}", seg.gen_line, seg.gen_col),
                            );
                        }
                    }
                }
                None => {}
            }
        }
        Outcome::pass(nontrivial, classes)
    }
}

// ------------------------------------------------------------------------------------------ C10

/// a generated original map for a program text: what a transpiler could have produced
fn gen_original_map(t: &mut Tape, src: &str) -> (Map, Value) {
    let table = LineTable::new(src);
    let nsrc = 1 + t.below(3);
    let mut sources: Vec<String> = (0..nsrc).map(|i| [format!("../src/orig{i}.ts"), format!("orig{i}.ts"), format!("webpack://pkg/./lib/o{i}.ts")][t.below(3)].clone()).collect();
    if nsrc > 1 && t.chance(40) {
        // the same source listed twice (legal, produced by some bundlers)
        let first = sources[0].clone();
        sources[nsrc - 1] = first;
    }
    let nnames = t.below(4);
    let names: Vec<String> = (0..nnames).map(|i| format!("name{i}")).collect();
    let source_root = match t.below(4) {
        0 => Some("root/".to_string()),
        1 => Some("/abs/root".to_string()),
        _ => None,
    };
    let style = t.below(4); // 0 dense, 1 sparse, 2 one per line, 3 mixed with 1-field segments
    let mut segs = vec![];
    let (mut ol, mut oc) = (t.below(5) as u32, 0u32);
    for line in 0..table.lines() {
        let len = table.line_len_utf16(line);
        let skip_line = (style == 1 && t.chance(120)) || (style != 2 && t.chance(20));
        if skip_line {
            continue;
        }
        let mut col = if t.flag() { 0 } else { t.below(4) as u32 };
        let per_line = match style {
            0 => 1 + t.below(6),
            1 => 1 + t.below(2),
            2 => 1,
            _ => 1 + t.below(4),
        };
        for k in 0..per_line {
            if col > len {
                break;
            }
            if style == 3 && t.chance(40) {
                segs.push(Seg { gen_line: line as u32, gen_col: col, src: None });
            } else {
                let si = t.below(nsrc) as u32;
                if k == 0 || t.flag() {
                    ol += t.below(3) as u32;
                }
                oc = if t.flag() { col + t.below(7) as u32 } else { t.below(40) as u32 };
                let name = if nnames > 0 && t.chance(80) { Some(t.below(nnames) as u32) } else { None };
                segs.push(Seg { gen_line: line as u32, gen_col: col, src: Some((si, ol, oc, name)) });
            }
            col += 1 + t.below(9) as u32;
        }
        ol += 1;
    }
    let m = Map { version: 3, sources, names, source_root, segs, has_sections: false };
    let mut extra = json!({"file": "gen.js"});
    if t.chance(60) {
        extra["sourcesContent"] = json!(m.sources.iter().map(|_| "// original").collect::<Vec<_>>());
    }
    let v = smap::encode_map(&m, &extra);
    (m, v)
}

const REF_KINDS: &[&str] = &[
    "inline", "external-relative", "external-absolute", "missing", "unreadable", "invalid-base64", "invalid-json", "index-map", "legacy-at", "block-comment", "none", "two-comments", "lookalike-string",
    "lookalike-regex", "lookalike-template", "inline-charset", "inline-percent", "inline-plain",
];

/// percent-encoding of a data URL payload: everything but unreserved characters (`full`), or only what must be
fn percent_encode(text: &str, full: bool) -> String {
    let mut out = String::new();
    for b in text.bytes() {
        let keep = if full { b.is_ascii_alphanumeric() || b"-._~".contains(&b) } else { b.is_ascii_graphic() && b != b'%' };
        if keep {
            out.push(b as char);
        } else {
            out.push_str(&format!("%{:02X}", b));
        }
    }
    out
}

pub struct C10;

impl Check for C10 {
    fn id(&self) -> &'static str {
        "C10"
    }
    fn max_tape(&self) -> usize {
        900
    }
    fn decode(&self, tape: &[u8], stream: usize) -> Value {
        let mut t = Tape::new(tape);
        // reference kinds are cycled so that every fault is exercised: the first byte selects, offset by the thread
        let kind = REF_KINDS[(t.below(REF_KINDS.len()) + stream) % REF_KINDS.len()];
        let chain = t.weighted(&[3, 1]) == 0;
        let comments = t.flag();
        let file = *t.pick(&["/app/dist/gen.js", "/app/gen.js", "gen.js"]);
        let mut cfg = gen_cfg(&mut t, &CfgOpts { fixed_prefix: true, rich: true });
        let mut j = cfg.json.clone();
        j["comments"] = json!(comments);
        j["chainSourceMap"] = json!(chain);
        cfg = info_from_json(&j);
        let mut o = opts_for(&cfg, false);
        o.max_stmts = 4;
        o.layout_noise = t.flag();
        let p = gen_program_t(&mut t, &o);
        let mut src = p.src.clone();
        if !src.ends_with('\n') {
            src.push('\n');
        }
        if t.chance(5) {
            // a minified bundle: the program starts beyond column 65535 of its first line
            // (exactly: column 65536 + c of this line and column c of the next one differ by 2^16)
            src = format!("var banner = \"{}\"; {}", "x".repeat(65_519), src);
        }
        let (_, orig_json) = gen_original_map(&mut t, &src);
        let orig_text = orig_json.to_string();
        let b64 = smap::encode_base64(orig_text.as_bytes());
        let dir = std::path::Path::new(file).parent().map(|p| p.to_string_lossy().to_string()).unwrap_or_default();
        let join = |name: &str| std::path::Path::new(&dir).join(name).to_string_lossy().to_string();
        let mut files: Vec<Value> = vec![];
        let mut usable = false;
        let mut expect_read: Option<String> = None;
        let mut lookalike: Option<String> = None;
        let comment = match kind {
            "inline" => {
                usable = true;
                format!("//# sourceMappingURL=data:application/json;base64,{b64}")
            }
            // the preamble most tools emit (babel, webpack, convert-source-map)
            "inline-charset" => {
                usable = true;
                format!("//# sourceMappingURL=data:application/json;charset=utf-8;base64,{b64}")
            }
            // inline maps that are not base64 encoded (what sass and some bundlers emit)
            "inline-percent" => {
                usable = true;
                format!("//# sourceMappingURL=data:application/json;charset=utf-8,{}", percent_encode(&orig_text, true))
            }
            "inline-plain" => {
                usable = true;
                format!("//# sourceMappingURL=data:application/json,{}", percent_encode(&orig_text, false))
            }
            "external-relative" => {
                usable = true;
                files.push(json!({"path": join("gen.js.map"), "b64": b64}));
                expect_read = Some(join("gen.js.map"));
                "//# sourceMappingURL=gen.js.map".to_string()
            }
            "external-absolute" => {
                usable = true;
                files.push(json!({"path": "/maps/gen.js.map", "b64": b64}));
                expect_read = Some("/maps/gen.js.map".into());
                "//# sourceMappingURL=/maps/gen.js.map".to_string()
            }
            "missing" => {
                expect_read = Some(join("nope.map"));
                "//# sourceMappingURL=nope.map".to_string()
            }
            "unreadable" => {
                files.push(json!({"path": join("dir.map"), "fail": "PermissionDenied"}));
                expect_read = Some(join("dir.map"));
                "//# sourceMappingURL=dir.map".to_string()
            }
            "invalid-base64" => "//# sourceMappingURL=data:application/json;base64,@@@@".to_string(),
            "invalid-json" => format!("//# sourceMappingURL=data:application/json;base64,{}", smap::encode_base64(b"{\"version\":3,")),
            "index-map" => format!(
                "//# sourceMappingURL=data:application/json;base64,{}",
                smap::encode_base64(json!({"version":3,"sections":[{"offset":{"line":0,"column":0},"map":orig_json}]}).to_string().as_bytes())
            ),
            "legacy-at" => format!("//@ sourceMappingURL=data:application/json;base64,{b64}"),
            "block-comment" => {
                usable = true;
                format!("/*# sourceMappingURL=data:application/json;base64,{b64} */")
            }
            "two-comments" => {
                usable = true;
                format!("//# sourceMappingURL=data:application/json;base64,{b64}\n//# sourceMappingURL=data:application/json;base64,{b64}")
            }
            "lookalike-string" | "lookalike-regex" | "lookalike-template" => {
                usable = true;
                files.push(json!({"path": join("x.map"), "b64": b64}));
                expect_read = Some(join("x.map"));
                // a literal whose text equals the comment text
                // with or without the comment marker in front
                let text = if t.flag() { "# sourceMappingURL=x.map" } else { "//# sourceMappingURL=x.map" };
                let lit = match kind {
                    "lookalike-string" => format!("var lookalike = \"{text}\";"),
                    "lookalike-regex" => format!("var lookalike = /{}/;", text.replace('/', "\\/")),
                    // (sometimes a multi-line template with the text at the start of a line: what a build tool's own source holds)
                    _ if t.flag() => format!("var lookalike = `generated code\n{text}`;"),
                    _ => format!("var lookalike = `{text}`;"),
                };
                lookalike = Some(lit.clone());
                src = format!("{lit}\n{src}");
                "//# sourceMappingURL=x.map".to_string()
            }
            _ => String::new(),
        };
        // other comments at the end of the file, next to the reference: they are not the superseded comment
        let (before, after) = match t.below(4) {
            0 => ("// end of module\n", ""),
            1 => ("", "/* eof */\n"),
            2 => ("/* last words */ // and more\n", "// after the reference\n"),
            _ => ("", ""),
        };
        // blanks after the URL of a line comment belong to no URL
        let pad = if !comment.is_empty() && !comment.contains('\n') && comment.starts_with("//") && t.chance(40) { " \t" } else { "" };
        let src = format!("{src}{before}");
        let with_ref = if comment.is_empty() { format!("{src}{after}") } else { format!("{src}{comment}{pad}\n{after}") };
        // an earlier rewrite on the same thread (a file that stays unmodified and refers to a map of its own) must not matter
        let warmup = t.chance(80);
        let src = format!("{src}{after}");
        let tags: Vec<&str> = p.tags.iter().copied().collect();
        json!({
            "src": with_ref, "srcNoRef": src, "cfg": cfg.json, "file": file, "files": files, "kind": kind, "usable": usable, "expectRead": expect_read,
            "orig": orig_json, "lookalike": lookalike, "tags": tags, "parentNone": false, "warmup": warmup
        })
    }
    fn rule(&self) -> String {
        "a program plus a generated original map (dense / sparse / one-per-line / 1-field segments, 1-3 sources, names, sourceRoot, sourcesContent) referenced as \
         {inline data URL, external relative, external absolute, missing, unreadable, invalid base64, invalid JSON, index map, legacy //@, block comment, none, two \
         comments, look-alike string / regex / template} x {chain, comments}; external files served by a fault-injecting FileReader that records requested paths. \
         Oracle: chain on + usable map => every segment (g -> m) of the plain rewrite map has in the trailer at g exactly lookup(O, m) (source after sourceRoot, line, \
         column, name; greatest lower bound; either GLB or same-line reading accepted where they differ) and no other segment; otherwise trailer == plain rewrite map; \
         external reference read exactly once at dirname(file)/url; content = body + exactly one trailer; body identical with chain on and off; with comments kept the \
         superseded reference comment is gone and parse(body) equals the parse of the same program rewritten without the reference (every literal keeps its value); \
         non-trivial = distinct case with chain on, a usable map with >= 2 sources or >= 1 name and >= 20 segments, or a fault / look-alike variant"
            .into()
    }
    fn eval(&self, case: &Value, _ctx: &mut Ctx) -> Outcome {
        let (src, cfg, file) = case_parts(case);
        let kind = case["kind"].as_str().unwrap_or("none").to_string();
        let usable = case["usable"] == json!(true);
        let classes = vec![format!("ref:{kind}"), format!("chain:{}", cfg.chain), format!("comments:{}", cfg.comments)];
        let reader = crate::props_more::reader_from_case(case);
        let config = rw::make_config(&cfg.json);
        if case["warmup"] == json!(true) {
            let decoy_map = r#"{"version":3,"sources":["decoy.ts"],"names":["decoyName"],"mappings":"AAAAA;AACA;AACA;AACA"}"#;
            let decoy = format!("var k = 'only literals' + 'here';\n//# sourceMappingURL=data:application/json;base64,{}\n", smap::encode_base64(decoy_map.as_bytes()));
            let _ = rw::rewrite(&config, &decoy, "/app/dist/decoy.js", &MemReader::default());
        }
        let out = rw::rewrite(&config, &src, &file, &reader);
        let content = match &out {
            rw::Outcome::Ok(v) if v["metrics"]["status"] == json!("modified") => v["content"].as_str().unwrap_or("").to_string(),
            rw::Outcome::Ok(_) => return Outcome::pass(false, vec!["status:notmodified".into()]),
            rw::Outcome::Err(_) => return Outcome::skip("rewriter returned an error"),
            rw::Outcome::Panic(_) => return Outcome::skip("rewriter panicked (C13)"),
        };
        let reads = reader.log.borrow().clone();
        // reference: same rewrite with chaining off
        let mut j_off = cfg.json.clone();
        j_off["chainSourceMap"] = json!(false);
        let reader_off = crate::props_more::reader_from_case(case);
        let out_off = rw::rewrite(&rw::make_config(&j_off), &src, &file, &reader_off);
        let Some(content_off) = out_off.content().map(|s| s.to_string()) else { return Outcome::skip("reference rewrite failed") };
        let Some((body, payload)) = split_trailer(&content) else { return Outcome::fail("trailer-missing", "content does not end with exactly one inline trailer line") };
        let Some((body_off, payload_off)) = split_trailer(&content_off) else { return Outcome::skip("reference rewrite without trailer") };
        // (d) exactly one trailer, as last line
        if body.lines().any(|l| l.starts_with(crate::analysis::TRAILER_START)) {
            return Outcome::fail("trailer-duplicated", "more than one inline trailer line in the content");
        }
        // (e) body identical with chain on / off
        if body != body_off {
            return Outcome::fail("body-depends-on-chain", "the rewritten body differs between chain on and chain off");
        }
        let (f_map, _) = match decode_trailer(&payload) {
            Ok(x) => x,
            Err(e) => return Outcome::fail("trailer-invalid", e),
        };
        let (r_map, _) = match decode_trailer(&payload_off) {
            Ok(x) => x,
            Err(e) => return Outcome::skip(format!("reference trailer invalid: {e}")),
        };
        let mut nontrivial = kind != "inline" && kind != "none";
        // (c) reader log
        if let Some(p) = case["expectRead"].as_str() {
            let n = reads.iter().filter(|r| r.as_str() == p).count();
            if n != 1 || reads.len() != 1 {
                return Outcome::fail("reader-requests", format!("expected exactly one read of {p}, the reader saw {:?}", reads));
            }
        }
        // (an undecodable data URL makes the code under test try the URL as a path: not constrained by the property)
        // (a) / (b)
        let key = |s: &Seg| (s.gen_line, s.gen_col);
        if cfg.chain && usable && kind != "two-comments" {
            let orig = match smap::parse_map_value(&case["orig"]) {
                Ok(m) => m,
                Err(e) => return Outcome::inconclusive(format!("generated map unparsable: {e}")),
            };
            let mut f_iter = f_map.segs.iter().peekable();
            let mut matched = 0;
            for rs in &r_map.segs {
                let Some((_, ml, mc, _)) = rs.src else { continue };
                let glb = orig.lookup_glb(ml, mc);
                let same = orig.lookup_same_line(ml, mc);
                let acceptable: Vec<Option<&Seg>> = vec![glb, same];
                // the trailer segments at the same generated position. The printer may emit several segments for one
                // generated position (a token printed at the position of another); which of them a consumer's look-up
                // returns is not defined, so the composed value of this rewrite segment must be among them
                let fs: Vec<&Seg> = f_map.segs.iter().filter(|x| key(x) == key(rs)).collect();
                let f = fs.first().copied();
                let describe = |o: Option<&Seg>| -> Option<(String, u32, u32, Option<String>)> {
                    o.and_then(|s| s.src.map(|(si, l, c, n)| (orig.source_name(si), l, c, n.and_then(|i| orig.names.get(i as usize).cloned()))))
                };
                let describe_f = |s: &Seg| s.src.map(|(si, l, c, n)| (f_map.source_name(si), l, c, n.and_then(|i| f_map.names.get(i as usize).cloned())));
                let gots: Vec<Option<(String, u32, u32, Option<String>)>> = if fs.is_empty() { vec![None] } else { fs.iter().map(|s| describe_f(s)).collect() };
                let got = gots[0].clone();
                let sourceless_expected = acceptable.iter().any(|acc| acc.map(|s| s.src.is_none()).unwrap_or(false));
                if sourceless_expected && f.is_none() && acceptable.iter().all(|acc| acc.map(|s| s.src.is_none()).unwrap_or(true)) {
                    // the composed position must not fall through to the preceding token
                    if let Some(prev) = f_map.lookup_glb(rs.gen_line, rs.gen_col) {
                        if prev.src.is_some() {
                            return Outcome::fail(
                                "composition-sourceless-dropped",
                                format!("generated {}:{} composes to a token without source, but the trailer has no segment there: it resolves to the preceding token {:?}", rs.gen_line, rs.gen_col, prev.src),
                            );
                        }
                    }
                }
                let ok = acceptable.iter().any(|acc| {
                    let want = describe(*acc);
                    gots.iter().any(|got| match (&want, got) {
                        (None, None) => true,
                        (Some(w), Some(g)) => w == g,
                        // nothing to look up in the original map at all: no composed segment is fine
                        _ => acc.is_none() && got.is_none(),
                    })
                });
                if !ok {
                    return Outcome::fail(
                        "composition",
                        format!(
                            "generated {}:{} -> rewrite map {}:{} -> original lookup {:?} (same-line {:?}), but the trailer has {:?}",
                            rs.gen_line,
                            rs.gen_col,
                            ml,
                            mc,
                            describe(glb),
                            describe(same),
                            got
                        ),
                    );
                }
                matched += 1;
                let _ = f_iter.peek();
            }
            // no segment the plain map lacks
            for fs in &f_map.segs {
                if !r_map.segs.iter().any(|x| key(x) == key(fs)) {
                    return Outcome::fail("composition-extra-segment", format!("trailer has a segment at {}:{} that the plain rewrite map lacks", fs.gen_line, fs.gen_col));
                }
            }
            if matched >= 20 && (orig.sources.len() >= 2 || !orig.names.is_empty()) {
                nontrivial = true;
            }
        } else if kind != "two-comments" {
            // plain rewrite map expected
            if f_map.segs != r_map.segs || f_map.sources != r_map.sources {
                return Outcome::fail(
                    "plain-map-expected",
                    format!("no usable original map or chaining off ({kind}, chain {}), but the trailer differs from the plain rewrite map", cfg.chain),
                );
            }
        }
        // superseded comment gone (when comments are kept), nothing else altered
        {
            let parsed = match ast::parse(&body) {
                Ok(p) => p,
                Err(e) => {
                    // an input that parses and an output that does not: some text of the program was altered
                    if ast::parse(&src).is_ok() {
                        return Outcome::fail("program-text-altered", format!("the input parses, the output body does not: {}", e.chars().take(120).collect::<String>()));
                    }
                    return Outcome::skip("output unparsable (C08)");
                }
            };
            // the look-alike literal keeps its value (compared with the INPUT: a defect that alters every such literal alters
            // the one of the reference run too)
            if case["lookalike"].is_string() {
                fn find_decl<'a>(v: &'a Value, name: &str) -> Option<&'a Value> {
                    match v {
                        Value::Object(m) => {
                            if m.get("type").and_then(|t| t.as_str()) == Some("VariableDeclarator") && m.get("id").and_then(|i| i.get("value")).and_then(|x| x.as_str()) == Some(name) {
                                return m.get("init");
                            }
                            m.values().find_map(|x| find_decl(x, name))
                        }
                        Value::Array(a) => a.iter().find_map(|x| find_decl(x, name)),
                        _ => None,
                    }
                }
                if let Ok(pin) = ast::parse(&src) {
                    let (nin, nout) = (crate::erase::normalize(&pin.tree), crate::erase::normalize(&parsed.tree));
                    if let (Some(a), Some(b)) = (find_decl(&nin, "lookalike"), find_decl(&nout, "lookalike")) {
                        if let Some(d) = crate::erase::first_diff(a, b, "") {
                            return Outcome::fail("program-text-altered", format!("the literal that looks like the reference comment changed its value: {d}"));
                        }
                    }
                }
            }
            let leftover: Vec<&(u32, bool, String)> = parsed.comments.iter().filter(|c| c.2.trim_start().starts_with("# sourceMappingURL=")).collect();
            if cfg.comments && !leftover.is_empty() && kind != "two-comments" {
                return Outcome::fail("stale-reference-comment", format!("the superseded reference comment is still in the body: {:?}", leftover[0].2.chars().take(60).collect::<String>()));
            }
            // the same program without the reference comment must give the same tree
            let src_noref = case["srcNoRef"].as_str().unwrap_or("");
            let out_noref = rw::rewrite(&rw::make_config(&cfg.json), src_noref, &file, &MemReader::default());
            if let Some(c2) = out_noref.content() {
                if let Some((body2, _)) = split_trailer(c2) {
                    if let Ok(p2) = ast::parse(&body2) {
                        let n1 = crate::erase::normalize(&parsed.tree);
                        let n2 = crate::erase::normalize(&p2.tree);
                        if let Some(d) = crate::erase::first_diff(&n2, &n1, "") {
                            return Outcome::fail("program-text-altered", format!("removing the reference comment altered the program (reference without comment vs output): {d}"));
                        }
                        // ... and the same comments (whatever the printer does with comments in general, it does it to both)
                        if cfg.comments && kind != "two-comments" {
                            let texts = |p: &ast::Parsed| {
                                let mut v: Vec<(bool, String)> = p.comments.iter().filter(|c| !c.2.trim_start().starts_with("# sourceMappingURL=") && !c.2.trim_start().starts_with("@ sourceMappingURL=")).map(|c| (c.1, c.2.clone())).collect();
                                v.sort();
                                v
                            };
                            let (c1, c2) = (texts(&parsed), texts(&p2));
                            if c1 != c2 {
                                let lost: Vec<&(bool, String)> = c2.iter().filter(|c| !c1.contains(c)).collect();
                                let extra: Vec<&(bool, String)> = c1.iter().filter(|c| !c2.contains(c)).collect();
                                return Outcome::fail("comment-altered", format!("comments differ from those of the same program rewritten without the reference comment: lost {:?}, extra {:?}", lost, extra));
                            }
                        }
                    }
                }
            }
        }
        let _ = ReadOutcome::Fail(std::io::ErrorKind::Other);
        Outcome::pass(nontrivial, classes)
    }
}
