//! C01 (differential execution), C03 (recording hooks), and the dynamic halves of C06 / C07:
//! the original and the rewritten program run in identical observable realms inside Node.
use crate::analysis::analyze_outcome;
use crate::cfggen::{gen_cfg, CfgInfo, CfgOpts};
use crate::engine::{Check, Ctx, Outcome};
use crate::gen::{gen_program_t, EntryKind};
use crate::node;
use crate::props_static::{case_parts, opts_for};
use crate::rw;
use crate::tape::Tape;
use serde_json::{json, Value};

#[derive(Clone, Copy, PartialEq, Eq)]
pub enum Focus {
    General,
    /// recursion / closures / generators / callbacks heavy (C06)
    Reentrancy,
    /// directive prologues and strictness probes (C07)
    Strictness,
}

pub fn decode_exec_case(tape: &[u8], focus: Focus) -> Value {
    let mut t = Tape::new(tape);
    // small choices first: the program consumes whatever is left of the tape
    let s1 = 1 + t.u16() as u32;
    let cfg = gen_cfg(&mut t, &CfgOpts { fixed_prefix: true, rich: true });
    let mut o = opts_for(&cfg, true);
    o.allow_module = false;
    o.layout_noise = false;
    o.focus_reentrancy = focus == Focus::Reentrancy;
    o.focus_strictness = focus == Focus::Strictness;
    let p = gen_program_t(&mut t, &o);
    let tags: Vec<&str> = p.tags.iter().copied().collect();
    let seeds = vec![s1, s1.wrapping_mul(31).wrapping_add(7) % 65521 + 1, s1.wrapping_mul(131).wrapping_add(3) % 65519 + 1];
    let entry = match p.entry {
        EntryKind::Sync => "Sync",
        EntryKind::Async => "Async",
        EntryKind::Generator => "Generator",
    };
    json!({"src": p.src, "cfg": cfg.json, "file": "/app/src/gen.js", "tags": tags, "seeds": seeds, "entry": entry, "module": p.module, "redirected": p.redirected})
}

pub fn hook_kinds(cfg: &CfgInfo) -> Value {
    let mut m = serde_json::Map::new();
    for d in &cfg.all_dst {
        m.insert(d.clone(), json!("method"));
    }
    if let Some(p) = &cfg.plus {
        m.insert(p.clone(), json!("plus"));
    }
    if let Some(p) = &cfg.tpl {
        m.insert(p.clone(), json!("tpl"));
    }
    Value::Object(m)
}

pub struct DiffResult {
    pub resp: Value,
    pub static_sig: Option<String>,
    pub modified: bool,
}

/// rewrite + differential run; Err = outcome to return as is
pub fn differential(case: &Value, ctx: &mut Ctx) -> Result<DiffResult, Outcome> {
    let (src, cfg, file) = case_parts(case);
    let outcome = rw::rewrite_simple(&cfg.json, &src, &file);
    match &outcome {
        rw::Outcome::Err(_) => return Err(Outcome::skip("rewriter returned an error")),
        rw::Outcome::Panic(_) => return Err(Outcome::skip("rewriter panicked (C13)")),
        _ => {}
    }
    if !outcome.is_modified() {
        return Ok(DiffResult { resp: Value::Null, static_sig: None, modified: false });
    }
    let content = outcome.content().unwrap_or("").to_string();
    let req = json!({
        "cmd": "diff",
        "orig": src,
        "rewritten": content,
        "seeds": case["seeds"],
        "hooks": cfg.all_dst,
        "hookKinds": hook_kinds(&cfg),
        "bare": cfg.bare_names(),
        "nativeNames": cfg.method_names(),
        "entry": case["entry"],
        "module": case["module"],
        "file": file,
    });
    let resp = match node::call(ctx, &req) {
        Ok(r) => r,
        Err(e) => return Err(Outcome::inconclusive(format!("node worker: {e}"))),
    };
    if let Some(e) = resp.get("error") {
        return Err(Outcome::inconclusive(format!("node worker error: {}", e.as_str().unwrap_or("").chars().take(80).collect::<String>())));
    }
    // root-cause hint from the static eraser (for signatures only)
    let mut static_sig = None;
    let differs = resp["results"].as_array().map(|a| a.iter().any(|r| r["verdict"] == json!("differ") || r["hookErrors"].as_array().map(|h| !h.is_empty()).unwrap_or(false))).unwrap_or(false);
    if differs {
        let a = analyze_outcome(&src, &cfg, outcome);
        if let Some(Err(e)) = &a.erased {
            static_sig = Some(e.sig.clone());
        } else if let Some(Ok(er)) = &a.erased {
            static_sig = er.soft.first().map(|e| e.sig.clone());
        }
    }
    Ok(DiffResult { resp, static_sig, modified: true })
}

fn tags_of(case: &Value) -> Vec<String> {
    case["tags"].as_array().map(|a| a.iter().filter_map(|t| t.as_str().map(|s| s.to_string())).collect()).unwrap_or_default()
}

pub struct C01 {
    pub focus: Focus,
    pub id: &'static str,
}

impl Check for C01 {
    fn id(&self) -> &'static str {
        self.id
    }
    fn decode(&self, tape: &[u8], _stream: usize) -> Value {
        decode_exec_case(tape, self.focus)
    }
    fn max_tape(&self) -> usize {
        500
    }
    fn rule(&self) -> String {
        "differential execution in Node: (cfg, executable program, 3 realm seeds); the original and the rewritten content run in fresh vm contexts with \
         identical seeded realms (observable proxies, logging functions, coercion-logging objects) and pass-through hooks; compared: returned / yielded / \
         awaited value, complete effect log in order, exception class and point; tolerated exactly: messages and positions, string-hint coercion moment \
         (multiset; subset when throwing), function source text; non-trivial = distinct case whose output is modified, with >= 1 hook executed and >= 1 realm event"
            .into()
    }
    fn assumptions(&self) -> Vec<String> {
        vec![
            "V8 (Node 20) executes both programs; realm values are a finite adversarial vocabulary, not all of JavaScript".into(),
            "not generated: with, direct eval, reading Function source text, user bindings named _ddiast, callee values with own call/apply, coercion callbacks with side effects on program variables".into(),
            "a timeout or a realm event budget overrun is inconclusive, never a violation".into(),
        ]
    }
    fn eval(&self, case: &Value, ctx: &mut Ctx) -> Outcome {
        let d = match differential(case, ctx) {
            Ok(d) => d,
            Err(o) => return o,
        };
        let mut classes = tags_of(case);
        if !d.modified {
            classes.push("status:notmodified".into());
            return Outcome::pass(false, classes);
        }
        let results = d.resp["results"].as_array().cloned().unwrap_or_default();
        let mut inconclusive = 0;
        for r in &results {
            match r["verdict"].as_str().unwrap_or("") {
                "differ" => {
                    let src = case["src"].as_str().unwrap_or("");
                    let sig = match &d.static_sig {
                        Some(s) => format!("behaviour-differs+{s}"),
                        None => {
                            if r["cls"] == json!("late-throw") && has_missing_proto_method(src) {
                                "behaviour-differs:missing-proto-method-late-throw".to_string()
                            } else if has_super_key_in_super_call(src) {
                                "behaviour-differs:super-key-before-this-check".to_string()
                            } else if r["cls"] == json!("late-throw") && has_spread_noniterable_literal(src) {
                                "behaviour-differs:spread-noniterable-literal-late-throw".to_string()
                            } else {
                                "behaviour-differs".to_string()
                            }
                        }
                    };
                    let detail = format!(
                        "realm seed {}: {}\n  original : {} {}\n  rewritten: {} {}",
                        r["seed"],
                        r["why"].as_str().unwrap_or(""),
                        r["a"]["outcome"],
                        r["a"]["log"].to_string().chars().take(500).collect::<String>(),
                        r["b"]["outcome"],
                        r["b"]["log"].to_string().chars().take(500).collect::<String>()
                    );
                    return Outcome::fail(sig, detail);
                }
                "inconclusive" => inconclusive += 1,
                _ => {}
            }
        }
        if inconclusive == results.len() && !results.is_empty() {
            return Outcome::inconclusive(format!("all runs inconclusive: {}", results[0]["why"].as_str().unwrap_or("")));
        }
        let hook_calls = d.resp["hookCalls"].as_u64().unwrap_or(0);
        let events = d.resp["events"].as_u64().unwrap_or(0);
        classes.push("status:modified".into());
        for r in &results {
            let o = r["outcome"].as_str().unwrap_or("");
            classes.push(format!("outcome:{}", o.split(' ').next().unwrap_or("")));
        }
        Outcome::pass(hook_calls >= 1 && events >= 1, classes)
    }
}

pub struct C03Dynamic;

impl Check for C03Dynamic {
    fn id(&self) -> &'static str {
        "C03"
    }
    fn decode(&self, tape: &[u8], _stream: usize) -> Value {
        decode_exec_case(tape, Focus::General)
    }
    fn max_tape(&self) -> usize {
        500
    }
    fn rule(&self) -> String {
        "recording hooks in Node: every executed hook checks, with realm logging suspended, that its first argument is the operation applied to exactly the \
         values passed (Object.is(result, l + r); substitution strings occur in order in the template result; the realm's invocation table says the last \
         invocation of fn had this === receiver, the same argument vector and returned result; native String/Array methods recomputed); \
         non-trivial = distinct case with >= 1 executed hook whose operands include a realm object"
            .into()
    }
    fn eval(&self, case: &Value, ctx: &mut Ctx) -> Outcome {
        let d = match differential(case, ctx) {
            Ok(d) => d,
            Err(o) => return o,
        };
        let classes = tags_of(case);
        if !d.modified {
            return Outcome::pass(false, classes);
        }
        let results = d.resp["results"].as_array().cloned().unwrap_or_default();
        for r in &results {
            if let Some(errs) = r["hookErrors"].as_array() {
                if let Some(e) = errs.first() {
                    let sig = match &d.static_sig {
                        Some(s) => format!("hook-value-mismatch+{s}"),
                        None => {
                            if e.as_str().unwrap_or("").starts_with("regex-literal-identity") {
                                "hook-value-mismatch:regex-literal-identity".to_string()
                            } else if classes.iter().any(|c| c == "apply-surplus-arg") && e.as_str().unwrap_or("").starts_with("method hook") {
                                "hook-value-mismatch:apply-surplus-argument".to_string()
                            } else {
                                "hook-value-mismatch".to_string()
                            }
                        }
                    };
                    return Outcome::fail(sig, format!("realm seed {}: {}\n  hooks: {}", r["seed"], e.as_str().unwrap_or(""), r["b"]["hooks"].to_string().chars().take(600).collect::<String>()));
                }
            }
        }
        let hook_calls = d.resp["hookCalls"].as_u64().unwrap_or(0);
        Outcome::pass(hook_calls >= 1, classes)
    }
}

/// does the program call `X.prototype.m.call/apply` for a method `m` that does not exist on `X.prototype`?
pub fn has_missing_proto_method(src: &str) -> bool {
    const STRING: &[&str] = &["substring", "trim", "trimStart", "trimEnd", "concat", "replace", "replaceAll", "slice", "padStart", "padEnd", "repeat", "toLowerCase", "toUpperCase"];
    const ARRAY: &[&str] = &["concat", "slice", "join"];
    let mut rest = src;
    while let Some(i) = rest.find(".prototype.") {
        let before = &rest[..i];
        let class: String = before.chars().rev().take_while(|c| c.is_alphanumeric() || *c == '_' || *c == '$').collect::<String>().chars().rev().collect();
        let after = &rest[i + ".prototype.".len()..];
        let m: String = after.chars().take_while(|c| c.is_alphanumeric() || *c == '_' || *c == '$').collect();
        let exists = match class.as_str() {
            "String" => STRING.contains(&m.as_str()),
            "Array" => ARRAY.contains(&m.as_str()),
            _ => false,
        };
        if !exists {
            return true;
        }
        rest = after;
    }
    false
}

/// a `super[..]` property access written inside the arguments of a `super(..)` call (same line, before the
/// `this.p =` that follows the call in generated constructors): always throws, `this` is not initialised yet
pub fn has_super_key_in_super_call(src: &str) -> bool {
    src.lines().any(|l| match l.find("super(") {
        Some(i) => {
            let args = &l[i + 6..];
            let args = args.split("); this.p").next().unwrap_or(args);
            args.contains("super[")
        }
        None => false,
    })
}

/// `...1`, `...null`, `...true`, `.../re/`: spreading a literal that is not iterable (always throws)
pub fn has_spread_noniterable_literal(src: &str) -> bool {
    let mut rest = src;
    while let Some(i) = rest.find("...") {
        let after = &rest[i + 3..];
        if after.starts_with(|c: char| c.is_ascii_digit()) || after.starts_with("null") || after.starts_with("true") || after.starts_with("false") || after.starts_with('/') || after.starts_with("undefined") {
            return true;
        }
        rest = after;
    }
    false
}
