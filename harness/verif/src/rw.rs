//! Thin wrapper around the code under test (the mirror package = /repo's working tree built with the
//! verification cfg). Everything the checks observe goes through here.
use iast_mirror::verif_hooks::{
    print_js, rewrite_js, verif_access, Config, FileReader, Status,
};
use serde_json::Value;
use std::cell::RefCell;
use std::collections::HashMap;
use std::io::Cursor;
use std::panic::{catch_unwind, AssertUnwindSafe};
use std::path::{Path, PathBuf};

thread_local! {
    static LAST_PANIC: RefCell<Option<String>> = const { RefCell::new(None) };
    static QUIET_PANICS: RefCell<bool> = const { RefCell::new(false) };
}

/// Install a panic hook that records message + location per thread; it prints only when the
/// panicking thread is not inside `guarded` (so harness bugs stay visible).
pub fn install_panic_hook() {
    let default = std::panic::take_hook();
    std::panic::set_hook(Box::new(move |info| {
        let quiet = QUIET_PANICS.with(|q| *q.borrow());
        let msg = if let Some(s) = info.payload().downcast_ref::<&str>() {
            s.to_string()
        } else if let Some(s) = info.payload().downcast_ref::<String>() {
            s.clone()
        } else {
            "<non-string panic>".to_string()
        };
        let loc = info
            .location()
            .map(|l| format!("{}:{}", l.file(), l.line()))
            .unwrap_or_default();
        LAST_PANIC.with(|p| *p.borrow_mut() = Some(format!("{msg} @ {loc}")));
        if !quiet {
            default(info);
        }
    }));
}

pub fn install_panic_hook_once() {
    static ONCE: std::sync::Once = std::sync::Once::new();
    ONCE.call_once(install_panic_hook);
}

/// Runs `f`, turning a panic into `Err(description)`.
pub fn guarded<T>(f: impl FnOnce() -> T) -> Result<T, String> {
    QUIET_PANICS.with(|q| *q.borrow_mut() = true);
    LAST_PANIC.with(|p| *p.borrow_mut() = None);
    let r = catch_unwind(AssertUnwindSafe(f));
    QUIET_PANICS.with(|q| *q.borrow_mut() = false);
    r.map_err(|_| {
        LAST_PANIC
            .with(|p| p.borrow_mut().take())
            .unwrap_or_else(|| "panic".to_string())
    })
}

#[derive(Clone, Debug)]
pub enum ReadOutcome {
    Bytes(Vec<u8>),
    Fail(std::io::ErrorKind),
}

/// In-memory, fault-injecting `FileReader` (the seam the code already has). Records every path asked for.
#[derive(Default)]
pub struct MemReader {
    pub files: HashMap<String, ReadOutcome>,
    pub parent_none: bool,
    pub log: RefCell<Vec<String>>,
}

impl FileReader<Cursor<Vec<u8>>> for MemReader {
    fn read(&self, path: &Path) -> std::io::Result<Cursor<Vec<u8>>> {
        let p = path.to_string_lossy().to_string();
        self.log.borrow_mut().push(p.clone());
        match self.files.get(&p) {
            Some(ReadOutcome::Bytes(b)) => Ok(Cursor::new(b.clone())),
            Some(ReadOutcome::Fail(k)) => Err(std::io::Error::new(*k, "injected fault")),
            None => Err(std::io::Error::new(std::io::ErrorKind::NotFound, "no such file")),
        }
    }

    fn parent(&self, path: &Path) -> Option<PathBuf> {
        if self.parent_none {
            None
        } else {
            path.parent().map(PathBuf::from)
        }
    }
}

pub fn make_config(cfg_json: &Value) -> Config {
    verif_access::config_from_json(&cfg_json.to_string())
}

pub fn make_config_str(cfg_json: &str) -> Config {
    verif_access::config_from_json(cfg_json)
}

/// What the package-level `rewrite` returns: Ok({content, metrics, literalsResult}) or Err(message),
/// or a panic description.
#[derive(Clone, Debug)]
pub enum Outcome {
    Ok(Value),
    Err(String),
    Panic(String),
}

impl Outcome {
    pub fn status(&self) -> &str {
        match self {
            Outcome::Ok(v) => v["metrics"]["status"].as_str().unwrap_or("?"),
            Outcome::Err(_) => "error",
            Outcome::Panic(_) => "panic",
        }
    }
    pub fn content(&self) -> Option<&str> {
        match self {
            Outcome::Ok(v) => v["content"].as_str(),
            _ => None,
        }
    }
    pub fn is_modified(&self) -> bool {
        self.status() == "modified"
    }
    pub fn to_json(&self) -> Value {
        match self {
            Outcome::Ok(v) => serde_json::json!({"ok": v}),
            Outcome::Err(e) => serde_json::json!({"err": e}),
            Outcome::Panic(e) => serde_json::json!({"panic": e}),
        }
    }
}

pub fn rewrite(config: &Config, src: &str, file: &str, reader: &MemReader) -> Outcome {
    match guarded(|| verif_access::rewrite_to_json(config, src.to_string(), file, reader)) {
        Ok(Ok(v)) => Outcome::Ok(v),
        Ok(Err(e)) => Outcome::Err(e),
        Err(p) => Outcome::Panic(p),
    }
}

pub fn rewrite_simple(cfg_json: &Value, src: &str, file: &str) -> Outcome {
    let config = make_config(cfg_json);
    rewrite(&config, src, file, &MemReader::default())
}

/// The lower level result (before `print_js`), for the checks that need the parts.
pub struct RawOut {
    pub status: String,
    pub code: String,
    pub source_map: String,
    pub had_original_map: bool,
    pub original_comment: Option<String>,
    pub printed: String,
}

pub fn rewrite_raw(
    config: &Config,
    src: &str,
    file: &str,
    reader: &MemReader,
) -> Result<Result<RawOut, String>, String> {
    guarded(|| {
        rewrite_js(src.to_string(), file, config, reader)
            .map(|out| {
                let printed = print_js(
                    &out.code,
                    &out.source_map,
                    &out.original_source_map,
                    config,
                )
                .into_owned();
                let status = match out.transform_status.as_ref().map(|s| &s.status) {
                    Some(Status::Modified) => "modified",
                    Some(Status::NotModified) => "notmodified",
                    Some(Status::Cancelled) => "cancelled",
                    None => "none",
                };
                RawOut {
                    status: status.to_string(),
                    had_original_map: out.original_source_map.source.is_some(),
                    original_comment: out.original_source_map.source_map_comment.clone(),
                    code: out.code,
                    source_map: out.source_map,
                    printed,
                }
            })
            .map_err(|e| format!("{e}"))
    })
}
