//! Bounded-exhaustive shape table: operation kind x operand / receiver shape x statement context x
//! configuration, enumerated systematically ("generated input" too, only not random). Used by the static
//! oracles (C02 C03 C04 C05 C08 C15); the whole table is covered in the thorough tier, a fixed third of it in quick.
use serde_json::{json, Value};

fn operand_shapes() -> Vec<&'static str> {
    vec!["a", "'lit'", "1", "g()", "o.p", "(a, b)", "`t${a}`", "a + b", "'x' + 'y'", "(c)", "a.trim()", "null"]
}

fn expressions() -> Vec<(String, &'static str)> {
    let mut v: Vec<(String, &'static str)> = vec![];
    let ops = operand_shapes();
    // binary +
    for l in &ops {
        for r in &ops {
            v.push((format!("{l} + {}", paren_if_sum(r)), "plus"));
        }
    }
    // +=
    for t in ["x", "o.p", "o[k]", "o().p", "a[i++]", "this.q", "o.p.q", "o[g()]"] {
        for r in &ops {
            v.push((format!("{t} += {r}"), "add-assign"));
        }
    }
    // templates
    for a in &ops {
        v.push((format!("`${{{a}}}`"), "tpl"));
        for b in ["b", "'lit'", "g()"] {
            v.push((format!("`q${{{a}}}w${{{b}}}e`"), "tpl"));
        }
    }
    v.push(("`no substitution`".into(), "tpl"));
    v.push(("h`tagged ${a} ${b + c}`".into(), "tpl"));
    // method calls
    let receivers = ["a", "a.b", "a[k]", "g()", "(a)", "(a, b)", "[a, b]", "'lit'", "this", "new K()", "`t${a}`", "a.prototype", "1.5", "a.b.c", "g().p", "a.trim()", "arguments[0]", "new.target.name", "(a || b)", "a.b?.c", "(a = b)", "(a++)", "(() => a)()", "a`t`", "new K", "/re/", "1n", "(a ? b : c)"];
    let methods = ["trim", "concat", "foo", "substring"];
    let args = ["", "a", "'l'", "a, g()", "...a", "a + b", "'x', 'y'", "b, ...c, d", "/re/g, a"];
    for r in receivers {
        for m in methods {
            for a in args {
                v.push((format!("{r}.{m}({a})"), "call"));
            }
        }
    }
    for r in ["a", "g()"] {
        v.push((format!("{r}['trim'](b)"), "call"));
        v.push((format!("{r}.trim?.(b)"), "call"));
        v.push((format!("{r}.#priv"), "call"));
    }
    // optional chains
    for m in ["trim", "foo"] {
        for a in ["", "b", "b + c", "b?.c", "b?.trim()"] {
            for form in [
                "a?.{m}({a})", "a?.p.{m}({a})", "a.p?.{m}({a})", "a?.[k].{m}({a})", "a?.(x).{m}({a})", "a.p?.(x).{m}({a})", "a.{m}?.({a})", "a?.{m}({a}).length", "a?.{m}({a})?.slice(1)", "a?.b?.{m}({a})",
                "(a?.b).{m}({a})", "a?.{m}({a}).p.q", "a?.p?.q?.{m}({a})", "(a.p)?.().{m}({a})", "a?.{m}({a}).foo?.().slice(2)", "null?.{m}({a})", "a?.prototype.{m}({a})",
            ] {
                v.push((form.replace("{m}", m).replace("{a}", a), "opt-chain"));
            }
        }
    }
    // prototype call / apply
    for path in ["String.prototype.concat", "Array.prototype.slice", "a.b.trim", "String.prototype.foo", "[].slice", "''.concat"] {
        for this_arg in ["a", "'lit'", "g()", "...a", "null"] {
            for rest in ["", ", b", ", 'l'", ", b, ...c"] {
                v.push((format!("{path}.call({this_arg}{rest})"), "proto"));
            }
            for rest in ["", ", [b, c]", ", ['l']", ", arr", ", ...arr", ", [b, , c]", ", [[b, c], d]", ", [...b, c]"] {
                v.push((format!("{path}.apply({this_arg}{rest})"), "proto"));
            }
        }
    }
    v.push(("String.prototype.concat.call()".into(), "proto"));
    // bare calls
    for a in args {
        v.push((format!("aloneMethod({a})"), "bare"));
        v.push((format!("notAllowed({a})"), "bare"));
    }
    v
}

fn paren_if_sum(r: &str) -> String {
    if r.contains(" + ") {
        format!("({r})")
    } else {
        r.to_string()
    }
}

/// statement contexts: `{E}` is replaced by the expression
fn contexts() -> Vec<(&'static str, &'static str)> {
    vec![
        ("return", "function f(a, b, c, o, k, i, x) { return {E}; }"),
        ("const", "function f(a, b, c, o, k, i, x) { const v = {E}; return v; }"),
        ("assign", "function f(a, b, c, o, k, i, x) { x = {E}; }"),
        ("expr-stmt", "function f(a, b, c, o, k, i, x) { ({E}); }"),
        ("if-test", "function f(a, b, c, o, k, i, x) { if ({E}) { x = 1; } }"),
        ("if-unbraced", "function f(a, b, c, o, k, i, x) { if (a) x = {E}; else x = {E}; }"),
        ("else-if", "function f(a, b, c, o, k, i, x) { if (a) { x = 1; } else if ({E}) { x = 2; } else x = {E}; }"),
        ("while", "function f(a, b, c, o, k, i, x) { while ({E}) break; }"),
        ("do-while", "function f(a, b, c, o, k, i, x) { do x = {E}; while (false); }"),
        ("for-init", "function f(a, b, c, o, k, i, x) { for (x = {E}; a; ) break; }"),
        ("for-test", "function f(a, b, c, o, k, i, x) { for (; {E}; ) break; }"),
        ("for-update", "function f(a, b, c, o, k, i, x) { for (; a; x = {E}) break; }"),
        ("for-of", "function f(a, b, c, o, k, i, x) { for (const e of {E}) { x = e; } }"),
        ("for-in", "function f(a, b, c, o, k, i, x) { for (const e in ({E})) { x = e; } }"),
        ("switch", "function f(a, b, c, o, k, i, x) { switch ({E}) { case ({E}): x = {E}; break; default: x = 1; } }"),
        ("throw", "function f(a, b, c, o, k, i, x) { throw {E}; }"),
        ("cond", "function f(a, b, c, o, k, i, x) { return a ? {E} : ({E}) ? 1 : 2; }"),
        ("array", "function f(a, b, c, o, k, i, x) { return [{E}, ...[{E}]]; }"),
        ("object", "function f(a, b, c, o, k, i, x) { return { p: {E}, [{E}]: 1, m() { return {E}; } }; }"),
        ("argument", "function f(a, b, c, o, k, i, x) { return g({E}, b); }"),
        ("in-template", "function f(a, b, c, o, k, i, x) { return `x${{E}}y${'lit'}`; }"),
        ("operand", "function f(a, b, c, o, k, i, x) { return ({E}) + 1; }"),
        ("unary", "function f(a, b, c, o, k, i, x) { return typeof ({E}); }"),
        ("delete", "function f(a, b, c, o, k, i, x) { return delete o[{E}]; }"),
        ("arrow-default", "function f(a, b, c, o, k, i, x) { return ((p = {E}) => p)(); }"),
        ("arrow-concise", "function f(a, b, c, o, k, i, x) { return (p) => {E}; }"),
        ("arrow-block", "function f(a, b, c, o, k, i, x) { return (p) => { return {E}; }; }"),
        ("fn-default", "function f(a, b, c, o, k, i, x) { function n(p = 1) { return {E}; } return n; }"),
        ("class-field", "function f(a, b, c, o, k, i, x) { class C { constructor() { this.q = {E}; } m() { return {E}; } static { x = {E}; } } return C; }"),
        ("class-key", "function f(a, b, c, o, k, i, x) { class C { [{E}]() { return 1; } } return C; }"),
        ("async", "async function f(a, b, c, o, k, i, x) { return await ({E}); }"),
        ("generator", "function* f(a, b, c, o, k, i, x) { const r = yield {E}; return r; }"),
        ("label", "function f(a, b, c, o, k, i, x) { L: { x = {E}; break L; } }"),
        ("try", "function f(a, b, c, o, k, i, x) { try { x = {E}; } catch (e) { x = {E}; } finally { x = {E}; } }"),
        ("strict", "function f(a, b, c, o, k, i, x) { 'use strict'; return {E}; }"),
        ("nested-block", "function f(a, b, c, o, k, i, x) { { { x = {E}; } } return x; }"),
        ("member-target", "function f(a, b, c, o, k, i, x) { o.p = {E}; o[{E}] = 1; }"),
        ("opt-index", "function f(a, b, c, o, k, i, x) { return a?.[{E}]; }"),
        ("tagged", "function f(a, b, c, o, k, i, x) { return h`t${{E}}u`; }"),
        ("sequence", "function f(a, b, c, o, k, i, x) { return (a, {E}, b); }"),
        ("logical", "function f(a, b, c, o, k, i, x) { return a || ({E}) && b ?? c; }".trim()),
        ("top-level", "var t = {E};"),
        ("top-arrow", "var t = (a, b, c, o, k, i, x) => {E};"),
        ("module", "export default function (a, b, c, o, k, i, x) { return {E}; }"),
        // round 5: positions that are expressions of a block without being statements of their own
        ("class-heritage", "function f(a, b, c, o, k, i, x) { class C extends ({E}) { m() { return 1; } } return C; }"),
        ("class-static-field", "function f(a, b, c, o, k, i, x) { class C { static s = {E}; static [{E}] = 1; } return C; }"),
        ("class-accessors", "function f(a, b, c, o, k, i, x) { class C { get p() { return {E}; } set p(v) { x = {E}; } static sm() { return {E}; } #pm() { return {E}; } static async *ag() { yield {E}; } } return C; }"),
        ("object-accessors", "function f(a, b, c, o, k, i, x) { return { get p() { return {E}; }, set p(v) { x = {E}; }, async am() { return {E}; }, *gm() { yield {E}; } }; }"),
        ("destructuring-key", "function f(a, b, c, o, k, i, x) { ({ [{E}]: x } = o); [o[{E}]] = a; return x; }"),
        ("destructuring-default", "function f(a, b, c, o, k, i, x) { const { p = {E} } = o; [x = {E}] = a; return p; }"),
        ("catch-pattern-default", "function f(a, b, c, o, k, i, x) { try { g(); } catch ({ message = {E} }) { x = message; } return x; }"),
        ("for-await", "async function f(a, b, c, o, k, i, x) { for await (const e of {E}) { x = e; } return x; }"),
        ("for-of-member-target", "function f(a, b, c, o, k, i, x) { for (o[{E}] of a) { x = 1; } for (o[{E}] in a) x = 2; }"),
        ("yield-star", "function* f(a, b, c, o, k, i, x) { x = yield* {E}; return x; }"),
        ("in-operand", "function f(a, b, c, o, k, i, x) { return (k in ({E})) || (({E}) in o) || (({E}) instanceof K); }"),
        ("new-argument", "function f(a, b, c, o, k, i, x) { return new K({E}, ...[{E}]); }"),
        ("new-callee", "function f(a, b, c, o, k, i, x) { return new ({E})(a); }"),
        ("tag-position", "function f(a, b, c, o, k, i, x) { return ({E})`t${a}`; }"),
        ("spread-argument", "function f(a, b, c, o, k, i, x) { return g(...({E}), a); }"),
        ("nested-template", "function f(a, b, c, o, k, i, x) { return `p${`q${{E}}`}r`; }"),
        ("async-arrow", "function f(a, b, c, o, k, i, x) { return [async (p) => {E}, async (p) => { await ({E}); }]; }"),
        ("with-body", "function f(a, b, c, o, k, i, x) { with (o) { x = {E}; } return x; }"),
        ("switch-case-block", "function f(a, b, c, o, k, i, x) { switch (a) { case 1: { x = {E}; break; } case 2: x = {E}; default: { x = {E}; } } return x; }"),
        ("chained-assign", "function f(a, b, c, o, k, i, x) { x = i = {E}; x ||= {E}; x ??= {E}; x &&= {E}; return x; }"),
        ("arith-unary", "function f(a, b, c, o, k, i, x) { return [2 ** ({E}), -({E}), !({E}), void ({E}), ({E}) * 2, ({E}) == a]; }"),
        ("optional-call-argument", "function f(a, b, c, o, k, i, x) { return [a?.({E}), a?.b({E}), a?.[k]({E})]; }"),
        ("super-member", "function f(a, b, c, o, k, i, x) { class D extends K { constructor() { super({E}); } m() { return super[{E}]; } static sm() { return super.q({E}); } } return D; }"),
        ("labeled-loops", "function f(a, b, c, o, k, i, x) { L1: for (;;) { L2: do { x = {E}; continue L1; } while ({E}); break L1; } return x; }"),
        ("iife", "function f(a, b, c, o, k, i, x) { return (function (p) { return {E}; })(a) + (() => { return {E}; })(); }"),
        ("getter-in-class-expression", "function f(a, b, c, o, k, i, x) { return new (class { get v() { return {E}; } })().v; }"),
        ("export-const", "export const v1 = (a, b, c, o, k, i, x) => { return {E}; };"),
        ("module-top-level-await", "const a = 1, b = 2, c = 3, o = {}, k = 0, i = 0; let x; export async function f() { x = await ({E}); } await f();"),
    ]
}

fn configs() -> Vec<Value> {
    let m = |extra: Value| {
        let mut list = vec![json!({"src": "trim"}), json!({"src": "concat", "dst": "stringConcat"}), json!({"src": "substring"}), json!({"src": "slice"}), json!({"src": "aloneMethod", "allowedWithoutCallee": true})];
        if let Some(a) = extra.as_array() {
            list.extend(a.iter().cloned());
        }
        list
    };
    vec![
        json!({"localVarPrefix": "test", "telemetryVerbosity": "DEBUG", "csiMethods": m(json!([{"src": "plusOperator", "operator": true}, {"src": "tplOperator", "operator": true}]))}),
        json!({"localVarPrefix": "test", "telemetryVerbosity": "DEBUG", "csiMethods": [{"src": "plusOperator", "operator": true, "dst": "plus"}]}),
        json!({"localVarPrefix": "test", "csiMethods": m(json!([]))}),
        json!({"localVarPrefix": "test", "telemetryVerbosity": "OFF", "comments": true, "csiMethods": [{"src": "tplOperator", "operator": true}, {"src": "trim", "dst": "shared"}, {"src": "foo", "dst": "shared"}]}),
    ]
}

pub fn table_size() -> usize {
    expressions().len() * contexts().len() * configs().len()
}

/// every `step`-th entry of the table, starting at `offset`
pub fn cases(step: usize, offset: usize) -> Vec<Value> {
    let exprs = expressions();
    let ctxs = contexts();
    let cfgs = configs();
    let mut out = vec![];
    let mut idx = 0usize;
    for (e, kind) in &exprs {
        for (cname, tmpl) in &ctxs {
            // the logical context mixes ?? with || / &&: needs parentheses to be legal
            let tmpl = if *cname == "logical" { "function f(a, b, c, o, k, i, x) { return (a || ({E}) && b) ?? c; }" } else { *tmpl };
            // private names are only legal inside a class body
            if e.contains(".#priv") {
                continue;
            }
            for cfg in &cfgs {
                idx += 1;
                if (idx + offset) % step != 0 {
                    continue;
                }
                let src = tmpl.replace("{E}", e);
                out.push(json!({"src": src, "cfg": cfg, "file": "/app/src/shape.js", "tags": ["enum", format!("enum-kind:{kind}"), format!("enum-ctx:{cname}")]}));
            }
        }
    }
    out
}
