//! Registry: which machinery decides which property at which tier.
use crate::engine::{self, Check, Ctx, Report, Verdict};
use crate::known;
use crate::props_dynamic as pd;
use crate::props_more as pm;
use crate::props_static as ps;
use serde_json::Value;

pub struct Plan {
    pub check: Box<dyn Check>,
    pub quick: u64,
    pub thorough: u64,
}

pub fn plans(id: &str) -> Vec<Plan> {
    match id {
        "C01" => vec![Plan { check: Box::new(pd::C01 { focus: pd::Focus::General, id: "C01" }), quick: 40_000, thorough: 1_500_000 }],
        "C02" => vec![Plan { check: Box::new(ps::C02), quick: 60_000, thorough: 3_000_000 }],
        "C03" => vec![
            Plan { check: Box::new(ps::C03Static), quick: 40_000, thorough: 2_000_000 },
            Plan { check: Box::new(pd::C03Dynamic), quick: 20_000, thorough: 800_000 },
        ],
        "C04" => vec![Plan { check: Box::new(ps::C04), quick: 60_000, thorough: 3_000_000 }],
        "C05" => vec![
            Plan { check: Box::new(ps::C05Static), quick: 40_000, thorough: 2_000_000 },
            Plan { check: Box::new(pm::C05Defaults), quick: 10_000, thorough: 200_000 },
            Plan { check: Box::new(pm::C05Prologue), quick: 4_000, thorough: 150_000 },
        ],
        "C06" => vec![
            Plan { check: Box::new(crate::props_c06::C06Static), quick: 60_000, thorough: 3_000_000 },
            Plan { check: Box::new(pd::C01 { focus: pd::Focus::Reentrancy, id: "C06" }), quick: 15_000, thorough: 600_000 },
        ],
        "C07" => vec![
            Plan { check: Box::new(pm::C07Static), quick: 40_000, thorough: 2_000_000 },
            Plan { check: Box::new(pd::C01 { focus: pd::Focus::Strictness, id: "C07" }), quick: 10_000, thorough: 500_000 },
        ],
        "C08" => vec![Plan { check: Box::new(pm::C08), quick: 30_000, thorough: 1_500_000 }],
        "C09" => vec![Plan { check: Box::new(crate::props_map::C09), quick: 40_000, thorough: 2_000_000 }],
        "C10" => vec![Plan { check: Box::new(crate::props_map::C10), quick: 30_000, thorough: 1_500_000 }],
        "C11" => vec![Plan { check: Box::new(crate::props_c11::C11), quick: 15_000, thorough: 600_000 }],
        "C12" => vec![Plan { check: Box::new(pm::C12), quick: 40_000, thorough: 2_000_000 }],
        "C13" => vec![Plan { check: Box::new(pm::C13), quick: 100_000, thorough: 5_000_000 }],
        "C14" => vec![Plan { check: Box::new(crate::props_c14::C14), quick: 60_000, thorough: 3_000_000 }],
        "C15" => vec![Plan { check: Box::new(pm::C15), quick: 60_000, thorough: 3_000_000 }],
        "C16" => vec![Plan { check: Box::new(pm::C16), quick: 20_000, thorough: 800_000 }],
        _ => vec![],
    }
}

fn load_json(path: &str) -> Option<Value> {
    serde_json::from_str(&std::fs::read_to_string(path).ok()?).ok()
}

/// replay one file: exit code 1 + VIOLATION line if it (still) fails
pub fn replay(id: &str, path: &str) -> i32 {
    let Some(doc) = load_json(path) else {
        eprintln!("cannot read replay file {path}");
        return 2;
    };
    let case = doc.get("case").cloned().unwrap_or(doc.clone());
    let mut ctx = Ctx { thread: 0, node: None };
    let mut worst = 0;
    for plan in plans(id) {
        let out = plan.check.eval(&case, &mut ctx);
        match out.verdict {
            Verdict::Fail(sig, detail) => {
                println!("VIOLATION property={id} replay={path}");
                println!("  signature: {sig}\n  detail: {}", detail.chars().take(2000).collect::<String>());
                worst = 1;
            }
            Verdict::Pass => println!("replay {path}: property {id} holds on this case"),
            Verdict::Skip(w) => println!("replay {path}: precondition not met ({w})"),
            Verdict::Inconclusive(w) => {
                println!("replay {path}: inconclusive ({w})");
                if worst == 0 {
                    worst = 2;
                }
            }
        }
    }
    worst
}

pub fn run(id: &str, tier: &str) -> i32 {
    let seed = engine::seed_from_env();
    let threads = engine::threads_from_env();
    let plans = plans(id);
    if plans.is_empty() {
        eprintln!("no check registered for {id}");
        return 2;
    }
    let mut report = Report::new(plans[0].check.as_ref(), tier, seed);
    report.rule = plans.iter().map(|p| p.check.rule()).collect::<Vec<_>>().join(" || ");
    report.assumptions = plans.iter().flat_map(|p| p.check.assumptions()).collect();
    // 1. open known findings: replay witnesses
    let mut ctx = Ctx { thread: 0, node: None };
    for f in known::open_findings(id) {
        let path = format!("{}/{}", engine::verif_root(), f.witness);
        let Some(doc) = load_json(&path) else {
            println!("note: witness {} of known finding {} unreadable", f.witness, f.id);
            continue;
        };
        let case = doc.get("case").cloned().unwrap_or(doc.clone());
        let mut reproduced = false;
        for plan in &plans {
            if let Verdict::Fail(sig, detail) = plan.check.eval(&case, &mut ctx).verdict {
                if sig == f.signature {
                    reproduced = true;
                } else {
                    report.violations.push(engine::Failure { signature: sig, detail, case: case.clone() });
                }
            }
        }
        if reproduced {
            report.known_lines.push(format!("KNOWN-FINDING: property={} id={} {}", id, f.id, f.description));
        }
    }
    // 2. saved regression inputs (shrunk failures of the past, fixed findings' witnesses, seeded-mutant killers)
    let dir = format!("{}/replays/regress/{}", engine::verif_root(), id);
    let mut saved = vec![];
    if let Ok(rd) = std::fs::read_dir(&dir) {
        let mut paths: Vec<_> = rd.filter_map(|e| e.ok()).map(|e| e.path()).collect();
        paths.sort();
        for p in paths {
            if let Some(doc) = load_json(&p.to_string_lossy()) {
                saved.push(doc.get("case").cloned().unwrap_or(doc));
            }
        }
    }
    for plan in &plans {
        if !saved.is_empty() {
            let r = engine::run_explicit(plan.check.as_ref(), saved.clone(), threads.min(4));
            report.stats.extra.insert("regression_inputs".into(), serde_json::json!(saved.len()));
            report.absorb(r);
        }
    }
    // 2b. frozen sample of real-world library files (cannot be executed meaningfully, can be rewritten / parsed / erased)
    if matches!(id, "C02" | "C03" | "C04" | "C05" | "C06" | "C08" | "C09" | "C12" | "C15") && std::env::var("VERIF_NO_CORPUS").is_err() {
        let cases = corpus_cases(if tier == "thorough" { usize::MAX } else { 150 });
        if !cases.is_empty() {
            report.stats.extra.insert("corpus_files".into(), serde_json::json!(cases.len()));
            let r = engine::run_explicit(plans[0].check.as_ref(), cases, threads);
            report.absorb(r);
        }
    }
    // 2c. bounded-exhaustive shape table (operation kind x operand/receiver shape x statement context x configuration)
    if matches!(id, "C02" | "C03" | "C04" | "C05" | "C06" | "C08" | "C09" | "C12" | "C15") && std::env::var("VERIF_NO_ENUM").is_err() {
        let step = if tier == "thorough" { 1 } else { 6 };
        let offset = (seed % 6) as usize;
        let cases = crate::enumerate::cases(step, if step == 1 { 0 } else { offset });
        report.stats.extra.insert("shape_table".into(), serde_json::json!({"size": crate::enumerate::table_size(), "evaluated": cases.len(), "complete": step == 1}));
        if step == 1 {
            report.exhaustive = false; // the table is complete, the property's quantifier is not: see `shape_table`
        }
        let r = engine::run_explicit(plans[0].check.as_ref(), cases, threads);
        report.absorb(r);
    }
    // 3. generated cases
    let only: Option<usize> = std::env::var("VERIF_PLAN").ok().and_then(|s| s.parse().ok());
    for (i, plan) in plans.iter().enumerate() {
        if only.map(|o| o != i).unwrap_or(false) {
            continue;
        }
        let n = if tier == "thorough" { plan.thorough } else { plan.quick };
        let n = std::env::var("VERIF_CASES").ok().and_then(|s| s.parse().ok()).unwrap_or(n);
        let r = engine::run_generated(plan.check.as_ref(), n, seed.wrapping_add(i as u64 * 101), threads);
        report.absorb(r);
    }
    // 4. thorough only: coverage-guided campaign (libFuzzer; the tape decoder is the structure-aware front end)
    let mut fuzz_rc = 0;
    if tier == "thorough" && std::env::var("VERIF_NO_FUZZ").is_err() {
        let target = match id {
            "C02" | "C03" | "C04" | "C05" | "C06" | "C07" | "C09" | "C10" | "C12" | "C14" | "C15" => Some(("fz_static", id)),
            "C13" => Some(("fz_text", "")),
            _ => None,
        };
        if let Some((target, props)) = target {
            let secs = std::env::var("VERIF_FUZZ_SECS").unwrap_or_else(|_| "300".into());
            let out = std::process::Command::new(format!("{}/tools/fuzz.sh", engine::verif_root())).args(["run", target, &secs, props]).output();
            match out {
                Ok(o) => {
                    let text = String::from_utf8_lossy(&o.stdout).to_string();
                    for l in text.lines() {
                        println!("{l}");
                    }
                    fuzz_rc = o.status.code().unwrap_or(2);
                    report.stats.extra.insert("fuzz".into(), serde_json::json!({"target": target, "seconds": secs, "exit": fuzz_rc, "summary": text.lines().last().unwrap_or("")}));
                    if fuzz_rc == 1 {
                        // the campaign found a property failure: load its replay as a violation of this run
                        for l in text.lines().filter(|l| l.starts_with("VIOLATION")) {
                            if let Some(path) = l.split("replay=").nth(1) {
                                if let Some(doc) = load_json(path.trim()) {
                                    report.violations.push(engine::Failure {
                                        signature: doc["signature"].as_str().unwrap_or("fuzz").to_string(),
                                        detail: doc["detail"].as_str().unwrap_or("").to_string(),
                                        case: doc["case"].clone(),
                                    });
                                }
                            }
                        }
                    }
                }
                Err(e) => {
                    println!("INCONCLUSIVE: cannot run the fuzz campaign: {e}");
                    fuzz_rc = 2;
                }
            }
        }
    }
    let rc = report.finish();
    if rc == 0 && fuzz_rc == 2 {
        return 2;
    }
    rc
}

/// (file, config) cases from /verif/corpus/real
fn corpus_cases(limit: usize) -> Vec<Value> {
    let dir = format!("{}/corpus/real", engine::verif_root());
    let mut names: Vec<String> = std::fs::read_dir(&dir)
        .map(|rd| rd.filter_map(|e| e.ok()).map(|e| e.file_name().to_string_lossy().to_string()).filter(|n| n.ends_with("js")).collect())
        .unwrap_or_default();
    names.sort();
    let full = serde_json::json!({
        "localVarPrefix": "test", "telemetryVerbosity": "DEBUG", "comments": true,
        "csiMethods": [
            {"src": "plusOperator", "operator": true}, {"src": "tplOperator", "operator": true},
            {"src": "substring"}, {"src": "trim"}, {"src": "trimStart"}, {"src": "trimEnd"}, {"src": "concat", "dst": "stringConcat"}, {"src": "replace"},
            {"src": "replaceAll"}, {"src": "slice"}, {"src": "padStart"}, {"src": "padEnd"}, {"src": "repeat"}, {"src": "toLowerCase"}, {"src": "toUpperCase"},
            {"src": "join"}, {"src": "split"}, {"src": "push"}, {"src": "require", "allowedWithoutCallee": true}
        ]
    });
    let partial = serde_json::json!({
        "localVarPrefix": "abcdef", "telemetryVerbosity": "INFORMATION",
        "csiMethods": [{"src": "tplOperator", "operator": true}, {"src": "concat"}, {"src": "slice", "dst": "shared"}, {"src": "join", "dst": "shared"}]
    });
    let mut out = vec![];
    for (i, n) in names.iter().enumerate() {
        if out.len() >= limit {
            break;
        }
        let Ok(src) = std::fs::read_to_string(format!("{dir}/{n}")) else { continue };
        let cfg = if i % 3 == 2 { partial.clone() } else { full.clone() };
        out.push(serde_json::json!({"src": src, "cfg": cfg, "file": format!("/app/node_modules/pkg/{n}"), "tags": ["corpus"], "corpus": n}));
    }
    out
}
