//! The verification harness as a library (used by the `verif` binary and by the libFuzzer targets).
#![allow(dead_code)]
pub mod rw;
pub mod ast;
pub mod tape;
pub mod jsast;
pub mod gen;
pub mod engine;
pub mod known;
pub mod node;
pub mod cfggen;
pub mod erase;
pub mod sites;
pub mod analysis;
pub mod props_static;
pub mod props_dynamic;
pub mod props_more;
pub mod props_c06;
pub mod props_map;
pub mod props_c14;
pub mod props_c11;
pub mod smap;
pub mod checks;
pub mod enumerate;
