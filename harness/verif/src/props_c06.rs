//! C06: hygiene of injected temporaries. Static scope / activation analysis of the output tree,
//! the eraser's liveness checks, refusal of reserved-prefix names; the dynamic half (re-entrancy)
//! reuses the differential runner with a recursion / closure heavy generator.
use crate::analysis::analyze;
use crate::cfggen::{gen_cfg, CfgOpts};
use crate::engine::{Check, Ctx, Outcome};
use crate::erase::{ident_name, is_reserved, ty};
use crate::gen::gen_program_t;
use crate::props_static::{case_parts, opts_for, owner_of};
use crate::rw;
use crate::tape::Tape;
use serde_json::{json, Value};

#[derive(Clone)]
struct Frame {
    /// temporaries declared by the injected `let` of this block
    declared: Vec<String>,
    /// function nesting depth at which this block lives
    fn_depth: usize,
}

pub struct ScopeIssue {
    pub sig: String,
    pub detail: String,
}

struct Walker<'a> {
    prefix: &'a str,
    frames: Vec<Frame>,
    fn_depth: usize,
    fn_kinds: Vec<&'static str>,
    issues: Vec<ScopeIssue>,
    pub uses: usize,
    pub max_live_in_seq: usize,
}

fn injected_let_names(stmt: &Value, prefix: &str) -> Option<Vec<String>> {
    if ty(stmt) != "VariableDeclaration" || stmt["kind"] != json!("let") {
        return None;
    }
    let decls = stmt["declarations"].as_array()?;
    let mut names = vec![];
    for d in decls {
        if !d["init"].is_null() {
            return None;
        }
        let n = ident_name(&d["id"])?;
        if !is_reserved(n, prefix) {
            return None;
        }
        names.push(n.to_string());
    }
    if names.is_empty() {
        None
    } else {
        Some(names)
    }
}

impl<'a> Walker<'a> {
    fn enter_fn(&mut self, kind: &'static str) {
        self.fn_depth += 1;
        self.fn_kinds.push(kind);
    }
    fn leave_fn(&mut self) {
        self.fn_depth -= 1;
        self.fn_kinds.pop();
    }

    fn reference(&mut self, name: &str, ctx: &str) {
        self.uses += 1;
        for f in self.frames.iter().rev() {
            if f.declared.iter().any(|d| d == name) {
                if f.fn_depth != self.fn_depth {
                    let kind = self.fn_kinds.last().copied().unwrap_or("?");
                    self.issues.push(ScopeIssue {
                        sig: format!("temp-crosses-activation:{}", ctx.replace(' ', "-")),
                        detail: format!("{name} is used inside a {kind} but declared by the injected `let` of an enclosing function's block ({ctx}): it is shared between activations"),
                    });
                }
                return;
            }
        }
        self.issues.push(ScopeIssue { sig: "temp-undeclared".into(), detail: format!("{name} is used ({ctx}) but no enclosing block declares it with an injected `let`") });
    }

    fn walk_function_parts(&mut self, f: &Value, kind: &'static str) {
        // params (defaults included) and body belong to the function's own activation
        self.enter_fn(kind);
        if let Some(p) = f.get("params") {
            self.walk(p, "parameter list");
        }
        if let Some(b) = f.get("body") {
            self.walk(b, "body");
        }
        self.leave_fn();
    }

    fn walk(&mut self, v: &Value, ctx: &str) {
        match v {
            Value::Array(a) => {
                for x in a {
                    self.walk(x, ctx);
                }
            }
            Value::Object(m) => {
                let t = ty(v);
                match t {
                    "Identifier" => {
                        if let Some(n) = ident_name(v) {
                            if is_reserved(n, self.prefix) {
                                let n = n.to_string();
                                self.reference(&n, ctx);
                            }
                        }
                        return;
                    }
                    "BlockStatement" => {
                        let stmts = m.get("stmts").and_then(|s| s.as_array()).cloned().unwrap_or_default();
                        let mut declared = vec![];
                        let mut skip = None;
                        for (i, s) in stmts.iter().enumerate() {
                            if let Some(names) = injected_let_names(s, self.prefix) {
                                declared = names;
                                skip = Some(i);
                                break;
                            }
                            if !crate::erase::Eraser::is_directive(s) {
                                break;
                            }
                        }
                        self.frames.push(Frame { declared, fn_depth: self.fn_depth });
                        for (i, s) in stmts.iter().enumerate() {
                            if Some(i) == skip {
                                continue;
                            }
                            self.walk(s, ctx);
                        }
                        self.frames.pop();
                        return;
                    }
                    "FunctionDeclaration" | "FunctionExpression" => {
                        self.walk_function_parts(v, "function");
                        return;
                    }
                    "ArrowFunctionExpression" => {
                        self.walk_function_parts(v, "arrow function");
                        return;
                    }
                    "MethodProperty" | "GetterProperty" | "SetterProperty" => {
                        // computed keys are evaluated by the enclosing activation
                        self.walk(&m["key"], "computed key");
                        self.enter_fn("object method");
                        if let Some(p) = m.get("params") {
                            self.walk(p, "parameter list");
                        }
                        if let Some(p) = m.get("param") {
                            self.walk(p, "parameter list");
                        }
                        if let Some(b) = m.get("body") {
                            self.walk(b, "body");
                        }
                        self.leave_fn();
                        return;
                    }
                    "ClassMethod" | "PrivateMethod" => {
                        self.walk(&m["key"], "computed key");
                        self.walk_function_parts(&m["function"], "class method");
                        return;
                    }
                    "Constructor" => {
                        self.walk(&m["key"], "computed key");
                        self.enter_fn("constructor");
                        self.walk(&m["params"], "parameter list");
                        self.walk(&m["body"], "body");
                        self.leave_fn();
                        return;
                    }
                    "ClassProperty" | "PrivateProperty" => {
                        self.walk(&m["key"], "computed key");
                        if m.get("isStatic") == Some(&json!(true)) {
                            // a static field is initialised exactly once, in place, while the class is evaluated: its
                            // temporaries live in the activation that evaluates the class
                            self.walk(&m["value"], "static field initialiser");
                            return;
                        }
                        self.enter_fn("class field initialiser");
                        self.walk(&m["value"], "field initialiser");
                        self.leave_fn();
                        return;
                    }
                    "StaticBlock" => {
                        self.enter_fn("static block");
                        self.walk(&m["body"], "static block");
                        self.leave_fn();
                        return;
                    }
                    "MemberExpression" => {
                        self.walk(&m["object"], ctx);
                        if ty(&m["property"]) == "Computed" {
                            self.walk(&m["property"], ctx);
                        }
                        return;
                    }
                    "KeyValueProperty" | "AssignmentPatternProperty" | "KeyValuePatternProperty" => {
                        if ty(&m["key"]) == "Computed" {
                            self.walk(&m["key"], ctx);
                        }
                        if let Some(x) = m.get("value") {
                            self.walk(x, ctx);
                        }
                        return;
                    }
                    "LabeledStatement" => {
                        self.walk(&m["body"], ctx);
                        return;
                    }
                    "BreakStatement" | "ContinueStatement" => return,
                    "SequenceExpression" => {
                        // how many temporaries are assigned (hence live) in this sequence
                        let n = m["expressions"].as_array().map(|a| a.iter().filter(|e| ty(e) == "AssignmentExpression" && ident_name(&e["left"]).map(|n| is_reserved(n, self.prefix)).unwrap_or(false)).count()).unwrap_or(0);
                        self.max_live_in_seq = self.max_live_in_seq.max(n);
                    }
                    _ => {}
                }
                for (k, x) in m {
                    if k.starts_with('$') {
                        continue;
                    }
                    self.walk(x, ctx);
                }
            }
            _ => {}
        }
    }
}

pub fn scope_issues(output_norm: &Value, prefix: &str) -> (Vec<ScopeIssue>, usize, usize) {
    let mut w = Walker { prefix, frames: vec![], fn_depth: 0, fn_kinds: vec![], issues: vec![], uses: 0, max_live_in_seq: 0 };
    w.walk(&output_norm["body"], "top level");
    (w.issues, w.uses, w.max_live_in_seq)
}

pub struct C06Static;

impl Check for C06Static {
    fn id(&self) -> &'static str {
        "C06"
    }
    fn decode(&self, tape: &[u8], _stream: usize) -> Value {
        let mut t = Tape::new(tape);
        let mode = t.weighted(&[3, 2]);
        let cfg = gen_cfg(&mut t, &CfgOpts { fixed_prefix: true, rich: true });
        let mut o = opts_for(&cfg, false);
        o.allow_module = true;
        o.focus_reentrancy = true;
        if mode == 1 {
            o.reserved_prefix = cfg.prefix.clone();
        }
        let p = gen_program_t(&mut t, &o);
        let tags: Vec<&str> = p.tags.iter().copied().collect();
        json!({"src": p.src, "cfg": cfg.json, "file": "/app/src/gen.js", "tags": tags, "mode": mode})
    }
    fn rule(&self) -> String {
        "nesting / scope mode: deeply nested instrumented expressions, closures, loops, generators, async, classes, parameter lists; reserved-name mode: an \
         identifier with the reserved prefix (or a look-alike with another prefix) planted as binding, reference, parameter, default, catch clause, label, \
         property key, member name or string. Static oracle on the output tree: every reserved identifier resolves to an injected `let` of an enclosing block in \
         the same function activation (parameter lists and field initialisers belong to their function-like, computed keys to the enclosing one); inside injected \
         sequences every temporary is assigned before read, not reassigned while a later read needs it, used once (eraser liveness); nothing reserved undeclared. \
         Refusal oracle: a program mentioning a reserved name as identifier or label either gets Err(\"Variable name duplicated\") or an output in which no user \
         occurrence resolves to an injected binding. Dynamic oracle: differential execution of recursion / closure / generator / callback heavy programs. \
         non-trivial = distinct case with >= 2 temporaries assigned in one sequence, or a reserved-name plant"
            .into()
    }
    fn eval(&self, case: &Value, _ctx: &mut Ctx) -> Outcome {
        let (src, cfg, file) = case_parts(case);
        let prefix = cfg.prefix.clone().unwrap_or_default();
        let a = analyze(&src, &cfg, &file);
        if a.src.is_err() {
            return Outcome::skip("input rejected by the independent parser");
        }
        let planted = case["tags"].as_array().map(|t| t.iter().any(|x| x == "reserved-ident")).unwrap_or(false);
        let mut classes: Vec<String> = vec![];
        if let Some(t) = case["tags"].as_array() {
            for x in t {
                if let Some(s) = x.as_str() {
                    if s.starts_with("reserved") {
                        classes.push(s.to_string());
                    }
                }
            }
        }
        match &a.outcome {
            rw::Outcome::Err(e) => {
                if e.contains("Variable name duplicated") {
                    classes.push("refused".into());
                    return Outcome::pass(planted, classes);
                }
                return Outcome::skip("rewriter returned an error");
            }
            rw::Outcome::Panic(_) => return Outcome::skip("rewriter panicked (C13)"),
            _ => {}
        }
        if !a.outcome.is_modified() {
            return Outcome::pass(false, classes);
        }
        let Some(Ok(_)) = &a.out else { return Outcome::skip("output unparsable (C08)") };
        if planted {
            classes.push("not-refused".into());
            // accepted although a reserved name is mentioned: the output must still erase cleanly, i.e. no user
            // occurrence is mistaken for (resolves to) an injected temporary and nothing reserved is left over
            return match a.erased.as_ref().unwrap() {
                Err(e) if !(e.sig.starts_with("temp-") || e.sig == "reserved-left" || e.sig == "stray-temp-assignment" || e.sig.starts_with("operand-")) => {
                    Outcome::skip(format!("round trip failed: {} ({})", e.sig, owner_of(&e.sig)))
                }
                Err(e) => Outcome::fail("reserved-clash-emitted", format!("input mentions a reserved-prefix name, the rewrite was not refused and the output clashes: {} - {}", e.sig, e.detail)),
                Ok(_) => Outcome::pass(true, classes),
            };
        }
        let out_norm = match a.erased.as_ref().unwrap() {
            Ok(er) => er.output_norm.clone(),
            Err(e) => {
                if owner_of(&e.sig) == "C06" {
                    return Outcome::fail(e.sig.clone(), e.detail.clone());
                }
                crate::erase::normalize(&a.out.as_ref().unwrap().as_ref().unwrap().tree)
            }
        };
        let (issues, uses, live) = scope_issues(&out_norm, &prefix);
        if let Some(i) = issues.first() {
            return Outcome::fail(i.sig.clone(), i.detail.clone());
        }
        let _ = uses;
        classes.push(format!("live:{}", live.min(6)));
        Outcome::pass(live >= 2, classes)
    }
}
