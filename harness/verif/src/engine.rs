//! The property-based engine: proptest `TestRunner`s (one per thread, fixed seeds derived from
//! VERIF_SEED) generate choice tapes; a check decodes each tape into an *explicit* JSON case and
//! evaluates its oracle on that explicit case, so that a replay file (the shrunk explicit case)
//! bypasses the library entirely. Also: evidence accounting, known findings, exit codes.
use proptest::collection::vec;
use proptest::prelude::any;
use proptest::test_runner::{Config, RngSeed, TestCaseError, TestError, TestRunner};
use serde_json::{json, Value};
use std::collections::{BTreeMap, HashSet};
use std::sync::atomic::{AtomicBool, Ordering};
use std::sync::{Arc, Mutex};
use std::time::Instant;

/// root of the verification tree: /verif for the registered commands; a background exploration on a
/// snapshot (vp run) sets VERIF_ROOT to its own copy so that it is self-contained
pub fn verif_root() -> String {
    std::env::var("VERIF_ROOT").unwrap_or_else(|_| "/verif".to_string())
}

#[derive(Clone, Debug)]
pub enum Verdict {
    Pass,
    /// property violated: (signature, human readable detail)
    Fail(String, String),
    /// precondition of the property not met / case not usable: counted, never alarmed
    Skip(String),
    /// the harness could not decide (worker died, timeout): counted; the run exits 2 if there are many
    Inconclusive(String),
}

#[derive(Clone, Debug)]
pub struct Outcome {
    pub verdict: Verdict,
    pub nontrivial: bool,
    pub classes: Vec<String>,
}

impl Outcome {
    pub fn pass(nontrivial: bool, classes: Vec<String>) -> Self {
        Outcome { verdict: Verdict::Pass, nontrivial, classes }
    }
    pub fn fail(sig: impl Into<String>, detail: impl Into<String>) -> Self {
        Outcome { verdict: Verdict::Fail(sig.into(), detail.into()), nontrivial: true, classes: vec![] }
    }
    pub fn skip(why: impl Into<String>) -> Self {
        Outcome { verdict: Verdict::Skip(why.into()), nontrivial: false, classes: vec![] }
    }
    pub fn inconclusive(why: impl Into<String>) -> Self {
        Outcome { verdict: Verdict::Inconclusive(why.into()), nontrivial: false, classes: vec![] }
    }
}

/// Per-thread mutable context (Node worker handles, caches).
pub struct Ctx {
    pub thread: usize,
    pub node: Option<crate::node::Worker>,
}

pub trait Check: Sync {
    fn id(&self) -> &'static str;
    /// tape -> explicit JSON case (everything needed to re-run the oracle without the library)
    fn decode(&self, tape: &[u8], stream: usize) -> Value;
    /// evaluate the oracle on an explicit case
    fn eval(&self, case: &Value, ctx: &mut Ctx) -> Outcome;
    fn rule(&self) -> String;
    fn assumptions(&self) -> Vec<String> {
        vec![]
    }
    fn max_tape(&self) -> usize {
        700
    }
    /// signatures of open known findings (failures carrying them are counted, not alarmed)
    fn known_signatures(&self) -> Vec<String> {
        crate::known::open_signatures(self.id())
    }
}

#[derive(Default)]
pub struct Stats {
    pub evaluations: u64,
    pub nontrivial_keys: HashSet<u64>,
    pub classes: BTreeMap<String, u64>,
    pub skipped: BTreeMap<String, u64>,
    pub inconclusive: BTreeMap<String, u64>,
    pub known_hits: BTreeMap<String, u64>,
    pub samples: Vec<Value>,
    pub extra: BTreeMap<String, Value>,
}

impl Stats {
    pub fn merge(&mut self, o: Stats) {
        self.evaluations += o.evaluations;
        self.nontrivial_keys.extend(o.nontrivial_keys);
        for (k, v) in o.classes {
            *self.classes.entry(k).or_insert(0) += v;
        }
        for (k, v) in o.skipped {
            *self.skipped.entry(k).or_insert(0) += v;
        }
        for (k, v) in o.inconclusive {
            *self.inconclusive.entry(k).or_insert(0) += v;
        }
        for (k, v) in o.known_hits {
            *self.known_hits.entry(k).or_insert(0) += v;
        }
        for s in o.samples {
            if self.samples.len() < 8 {
                self.samples.push(s);
            }
        }
        for (k, v) in o.extra {
            self.extra.insert(k, v);
        }
    }

    pub fn record(&mut self, case: &Value, out: &Outcome) {
        self.evaluations += 1;
        for c in &out.classes {
            *self.classes.entry(c.clone()).or_insert(0) += 1;
        }
        match &out.verdict {
            Verdict::Skip(w) => *self.skipped.entry(w.clone()).or_insert(0) += 1,
            Verdict::Inconclusive(w) => *self.inconclusive.entry(w.clone()).or_insert(0) += 1,
            _ => {}
        }
        if out.nontrivial && matches!(out.verdict, Verdict::Pass) {
            let key = hash_value(case);
            if self.nontrivial_keys.insert(key) && self.samples.len() < 4 {
                self.samples.push(truncate_sample(case));
            }
        }
    }
}

pub fn hash_value(v: &Value) -> u64 {
    use std::hash::{Hash, Hasher};
    let mut h = std::collections::hash_map::DefaultHasher::new();
    v.to_string().hash(&mut h);
    h.finish()
}

pub fn hash_str(s: &str) -> u64 {
    use std::hash::{Hash, Hasher};
    let mut h = std::collections::hash_map::DefaultHasher::new();
    s.hash(&mut h);
    h.finish()
}

fn truncate_sample(v: &Value) -> Value {
    match v {
        Value::String(s) if s.len() > 1500 => {
            let mut cut = 1500;
            while !s.is_char_boundary(cut) {
                cut -= 1;
            }
            Value::String(format!("{}…[{} bytes]", &s[..cut], s.len()))
        }
        Value::Array(a) => Value::Array(a.iter().take(30).map(truncate_sample).collect()),
        Value::Object(m) => Value::Object(m.iter().map(|(k, v)| (k.clone(), truncate_sample(v))).collect()),
        x => x.clone(),
    }
}

pub struct Failure {
    pub signature: String,
    pub detail: String,
    pub case: Value,
}

pub struct RunResult {
    pub stats: Stats,
    pub failure: Option<Failure>,
}

pub fn seed_from_env() -> u64 {
    let s = std::env::var("VERIF_SEED").ok().and_then(|s| s.parse::<i64>().ok()).unwrap_or(0);
    if s == 0 {
        0x5EED_1A57_2026
    } else {
        s as u64
    }
}

pub fn threads_from_env() -> usize {
    std::env::var("VERIF_THREADS")
        .ok()
        .and_then(|s| s.parse().ok())
        .unwrap_or_else(|| std::thread::available_parallelism().map(|n| n.get()).unwrap_or(8).min(16))
}

/// Run `cases` generated cases of `check` over `threads` proptest runners.
/// Process-wide stall watchdog: every worker publishes the case it is evaluating; if one case takes longer
/// than VERIF_WATCHDOG_SECS (default 120) the input is saved and the process exits 2 (inconclusive).
pub struct Stall {
    slots: Vec<Mutex<Option<(Instant, String)>>>,
}

static STALL: std::sync::OnceLock<Stall> = std::sync::OnceLock::new();

pub fn stall() -> &'static Stall {
    STALL.get_or_init(|| {
        let s = Stall { slots: (0..64).map(|_| Mutex::new(None)).collect() };
        std::thread::spawn(|| {
            let limit = std::env::var("VERIF_WATCHDOG_SECS").ok().and_then(|s| s.parse().ok()).unwrap_or(120u64);
            loop {
                std::thread::sleep(std::time::Duration::from_secs(2));
                if let Some(st) = STALL.get() {
                    for slot in &st.slots {
                        let guard = slot.lock().unwrap();
                        if let Some((t0, case)) = guard.as_ref() {
                            if t0.elapsed().as_secs() > limit {
                                let dir = std::env::var("VERIF_FOUND_DIR").unwrap_or_else(|_| format!("{}/replays/found", verif_root()));
                                let _ = std::fs::create_dir_all(&dir);
                                let path = format!("{dir}/watchdog-{:016x}.json", hash_str(case));
                                let _ = std::fs::write(&path, case);
                                println!("WATCHDOG: one case has been running for more than {limit} s; input saved to {path}");
                                println!("INCONCLUSIVE: watchdog");
                                std::process::exit(2);
                            }
                        }
                    }
                }
            }
        });
        s
    })
}

impl Stall {
    pub fn begin(&self, thread: usize, case: &Value) {
        *self.slots[thread % 64].lock().unwrap() = Some((Instant::now(), case.to_string()));
    }
    pub fn end(&self, thread: usize) {
        *self.slots[thread % 64].lock().unwrap() = None;
    }
}

pub fn run_generated(check: &dyn Check, cases: u64, seed: u64, threads: usize) -> RunResult {
    let stop = Arc::new(AtomicBool::new(false));
    let failures: Arc<Mutex<Vec<Failure>>> = Arc::new(Mutex::new(vec![]));
    let merged = Arc::new(Mutex::new(Stats::default()));
    let known = check.known_signatures();
    let per_thread = (cases + threads as u64 - 1) / threads as u64;
    std::thread::scope(|scope| {
        for th in 0..threads {
            let stop = stop.clone();
            let failures = failures.clone();
            let merged = merged.clone();
            let known = known.clone();
            std::thread::Builder::new()
                .stack_size(512 << 20)
                .spawn_scoped(scope, move || {
                    let mut ctx = Ctx { thread: th, node: None };
                    let stats = std::cell::RefCell::new(Stats::default());
                    let counting = std::cell::Cell::new(true);
                    let first_failing: std::cell::RefCell<Option<Value>> = std::cell::RefCell::new(None);
                    let config = Config {
                        cases: per_thread as u32,
                        rng_seed: RngSeed::Fixed(seed.wrapping_mul(1_000_003).wrapping_add(th as u64 * 7919 + 1)),
                        failure_persistence: None,
                        max_shrink_iters: 4000,
                        max_global_rejects: 1 << 30,
                        max_local_rejects: 1 << 30,
                        verbose: 0,
                        ..Config::default()
                    };
                    let mut runner = TestRunner::new(config);
                    let strategy = vec(any::<u8>(), 0..=check.max_tape());
                    let ctx_cell = std::cell::RefCell::new(&mut ctx);
                    let result = runner.run(&strategy, |tape| {
                        if stop.load(Ordering::Relaxed) && counting.get() {
                            // another thread found a failure: finish quickly
                            return Ok(());
                        }
                        let case = check.decode(&tape, th);
                        stall().begin(th, &case);
                        let out = check.eval(&case, &mut ctx_cell.borrow_mut());
                        stall().end(th);
                        if counting.get() {
                            let mut st = stats.borrow_mut();
                            if let Verdict::Fail(sig, _) = &out.verdict {
                                if known.iter().any(|k| k == sig) {
                                    st.evaluations += 1;
                                    *st.known_hits.entry(sig.clone()).or_insert(0) += 1;
                                    return Ok(());
                                }
                            }
                            st.record(&case, &out);
                        }
                        match out.verdict {
                            Verdict::Fail(sig, detail) => {
                                if known.iter().any(|k| *k == sig) {
                                    return Ok(());
                                }
                                if counting.get() {
                                    if std::env::var("VERIF_DEBUG").is_ok() {
                                        eprintln!("FIRST FAILURE {sig}: {}", detail.chars().take(600).collect::<String>());
                                    }
                                    *first_failing.borrow_mut() = Some(case.clone());
                                }
                                counting.set(false);
                                Err(TestCaseError::fail(format!("{sig}: {detail}")))
                            }
                            _ => Ok(()),
                        }
                    });
                    if let Err(TestError::Fail(_, tape)) = result {
                        let case = check.decode(&tape, th);
                        let out = check.eval(&case, &mut ctx_cell.borrow_mut());
                        let mut case = case;
                        let mut verdict = out.verdict;
                        if !matches!(verdict, Verdict::Fail(..)) {
                            // the shrunk case does not fail (again): a defect whose manifestation is itself
                            // nondeterministic. Re-evaluate the case that failed first; if it fails again it is reported.
                            if let Some(orig) = first_failing.borrow().clone() {
                                for _ in 0..6 {
                                    let again = check.eval(&orig, &mut ctx_cell.borrow_mut());
                                    if let Verdict::Fail(s, d) = again.verdict {
                                        verdict = Verdict::Fail(s, format!("(manifests nondeterministically; un-shrunk case) {d}"));
                                        case = orig.clone();
                                        break;
                                    }
                                }
                            }
                        }
                        // only a failure that reproduces ends the search of the other threads: one that depends on what this thread
                        // evaluated before (state kept per thread by the code under test) leaves the others looking for a
                        // self-contained case
                        if matches!(verdict, Verdict::Fail(..)) {
                            stop.store(true, Ordering::Relaxed);
                        }
                        let (signature, detail) = match verdict {
                            Verdict::Fail(s, d) => (s, d),
                            other => {
                                if std::env::var("VERIF_DEBUG").is_ok() {
                                    eprintln!("UNSTABLE case: {}\nverdict now: {:?}", case, other);
                                }
                                ("unstable".to_string(), format!("shrunk case no longer fails: {:?}", other))
                            }
                        };
                        failures.lock().unwrap().push(Failure { signature, detail, case });
                    } else if let Err(TestError::Abort(r)) = result {
                        let mut st = stats.borrow_mut();
                        *st.inconclusive.entry(format!("proptest abort: {r}")).or_insert(0) += 1;
                    }
                    drop(ctx_cell);
                    merged.lock().unwrap().merge(stats.into_inner());
                })
                .expect("spawn");
        }
    });
    let mut fs = std::mem::take(&mut *failures.lock().unwrap());
    // smallest explicit case first
    fs.sort_by_key(|f| f.case.to_string().len());
    let stats = std::mem::take(&mut *merged.lock().unwrap());
    let mut stats = stats;
    let unstable = fs.iter().filter(|f| f.signature == "unstable").count() as u64;
    if unstable > 0 {
        // a failure that does not reproduce on its own shrunk case: never a violation, but the run is not clean
        *stats.inconclusive.entry("unstable failure (did not reproduce when re-evaluated)".into()).or_insert(0) += unstable.max(stats.evaluations / 5);
    }
    RunResult { stats, failure: fs.into_iter().find(|f| f.signature != "unstable") }
}

/// Evaluate explicit cases (corpus files, saved replays, enumerated shapes).
pub fn run_explicit(check: &dyn Check, cases: Vec<Value>, threads: usize) -> RunResult {
    let known = check.known_signatures();
    let queue = Arc::new(Mutex::new(cases.into_iter().enumerate().collect::<Vec<_>>()));
    let failures: Arc<Mutex<Vec<Failure>>> = Arc::new(Mutex::new(vec![]));
    let merged = Arc::new(Mutex::new(Stats::default()));
    std::thread::scope(|scope| {
        for th in 0..threads {
            let queue = queue.clone();
            let failures = failures.clone();
            let merged = merged.clone();
            let known = known.clone();
            std::thread::Builder::new()
                .stack_size(512 << 20)
                .spawn_scoped(scope, move || {
                    let mut ctx = Ctx { thread: th, node: None };
                    let mut stats = Stats::default();
                    loop {
                        let item = queue.lock().unwrap().pop();
                        let Some((_i, case)) = item else { break };
                        stall().begin(th + 32, &case);
                        let out = check.eval(&case, &mut ctx);
                        stall().end(th + 32);
                        if let Verdict::Fail(sig, detail) = &out.verdict {
                            if known.iter().any(|k| k == sig) {
                                stats.evaluations += 1;
                                *stats.known_hits.entry(sig.clone()).or_insert(0) += 1;
                                continue;
                            }
                            stats.evaluations += 1;
                            failures.lock().unwrap().push(Failure { signature: sig.clone(), detail: detail.clone(), case });
                            continue;
                        }
                        stats.record(&case, &out);
                    }
                    merged.lock().unwrap().merge(stats);
                })
                .expect("spawn");
        }
    });
    let mut fs = std::mem::take(&mut *failures.lock().unwrap());
    fs.sort_by_key(|f| f.case.to_string().len());
    let stats = std::mem::take(&mut *merged.lock().unwrap());
    RunResult { stats, failure: fs.into_iter().next() }
}

pub struct Report {
    pub id: String,
    pub tier: String,
    pub seed: u64,
    pub started: Instant,
    pub stats: Stats,
    pub rule: String,
    pub assumptions: Vec<String>,
    pub violations: Vec<Failure>,
    pub known_lines: Vec<String>,
    pub exhaustive: bool,
}

impl Report {
    pub fn new(check: &dyn Check, tier: &str, seed: u64) -> Self {
        Report {
            id: check.id().to_string(),
            tier: tier.to_string(),
            seed,
            started: Instant::now(),
            stats: Stats::default(),
            rule: check.rule(),
            assumptions: check.assumptions(),
            violations: vec![],
            known_lines: vec![],
            exhaustive: false,
        }
    }

    pub fn absorb(&mut self, r: RunResult) {
        self.stats.merge(r.stats);
        if let Some(f) = r.failure {
            self.violations.push(f);
        }
    }

    /// writes evidence, prints VIOLATION / KNOWN-FINDING lines, returns the process exit code
    pub fn finish(mut self) -> i32 {
        let wall = self.started.elapsed().as_secs_f64();
        // a second build of the code under test (C13: debug assertions on) runs as a side run of the main one
        let flavour = std::env::var("VERIF_BUILD_FLAVOUR").ok();
        if flavour.is_none() {
            for l in &self.known_lines {
                println!("{l}");
            }
        }
        let mut replay_paths = vec![];
        for (i, f) in self.violations.iter().enumerate() {
            let dir = std::env::var("VERIF_FOUND_DIR").unwrap_or_else(|_| format!("{}/replays/found", verif_root()));
            let _ = std::fs::create_dir_all(&dir);
            let path = format!("{dir}/{}-{}-{:016x}.json", self.id, self.tier, hash_value(&f.case) ^ i as u64);
            let mut doc = json!({"property": self.id, "signature": f.signature, "detail": f.detail, "case": f.case});
            if let Some(fl) = &flavour {
                doc["build"] = json!(fl);
            }
            let _ = std::fs::write(&path, serde_json::to_string_pretty(&doc).unwrap());
            println!("VIOLATION property={} replay={}", self.id, path);
            println!("  signature: {}", f.signature);
            let d: String = f.detail.chars().take(1500).collect();
            println!("  detail: {}", d);
            replay_paths.push(path);
        }
        let inconclusive: u64 = self.stats.inconclusive.values().sum();
        let distinct = self.stats.nontrivial_keys.len() as u64;
        if self.stats.samples.is_empty() {
            self.stats.samples.push(json!("no non-trivial case in this run"));
        }
        let mut coverage = json!({
            "evaluations": self.stats.evaluations,
            "distinct_nontrivial": distinct,
            "rule": self.rule,
            "samples": self.stats.samples,
            "classes": self.stats.classes,
            "skipped_precondition": self.stats.skipped,
            "inconclusive": self.stats.inconclusive,
            "excluded_known_finding_hits": self.stats.known_hits,
            "exhaustive": self.exhaustive,
        });
        for (k, v) in &self.stats.extra {
            coverage[k] = v.clone();
        }
        if let Some(fl) = &flavour {
            coverage["build"] = json!(fl);
        }
        if let Ok(side) = std::env::var("VERIF_SIDE_EVIDENCE") {
            // summary of the side run (same check, other build of the code under test), measured by that run
            match std::fs::read_to_string(&side).ok().and_then(|t| serde_json::from_str::<Value>(&t).ok()) {
                Some(sv) => {
                    coverage["second_build"] = json!({
                        "build": sv["coverage"]["build"],
                        "evaluations": sv["coverage"]["evaluations"],
                        "distinct_nontrivial": sv["coverage"]["distinct_nontrivial"],
                        "classes": sv["coverage"]["classes"],
                        "inconclusive": sv["coverage"]["inconclusive"],
                        "violations": sv["violations"],
                        "wall_s": sv["wall_s"],
                    });
                }
                None => {
                    coverage["second_build"] = json!("side run wrote no evidence");
                }
            }
        }
        let ev = json!({
            "property_id": self.id,
            "tier": self.tier,
            "seed": self.seed as i64,
            "level": "exploration",
            "coverage": coverage,
            "assumptions": self.assumptions,
            "wall_s": wall,
            "violations": self.violations.len(),
            "known_findings_reported": self.known_lines,
            "replays": replay_paths,
        });
        // (the registered commands always write /verif/evidence; the override exists for trying seeded changes)
        let evdir = std::env::var("VERIF_EVIDENCE_DIR").unwrap_or_else(|_| format!("{}/evidence", verif_root()));
        let _ = std::fs::create_dir_all(&evdir);
        let path = format!("{evdir}/{}.json", self.id);
        std::fs::write(&path, serde_json::to_string_pretty(&ev).unwrap()).expect("write evidence");
        println!(
            "{} {}: evaluations={} distinct_nontrivial={} skipped={} inconclusive={} known_hits={} violations={} wall={:.1}s",
            self.id,
            self.tier,
            self.stats.evaluations,
            distinct,
            self.stats.skipped.values().sum::<u64>(),
            inconclusive,
            self.stats.known_hits.values().sum::<u64>(),
            self.violations.len(),
            wall
        );
        if !self.violations.is_empty() {
            return 1;
        }
        if self.stats.inconclusive.keys().any(|k| k.starts_with("watchdog")) {
            println!("INCONCLUSIVE: a call under test did not return (watchdog): {:?}", self.stats.inconclusive);
            return 2;
        }
        if self.stats.evaluations == 0 || inconclusive * 10 > self.stats.evaluations.max(1) {
            println!("INCONCLUSIVE: {:?}", self.stats.inconclusive);
            return 2;
        }
        if distinct < 2 {
            println!("INCONCLUSIVE: fewer than 2 distinct non-trivial cases");
            return 2;
        }
        0
    }
}
