//! G_cfg: tape -> rewriter configuration (the JS-side object) plus what the harness derives from it
//! independently of /repo (which names are methods, which hooks may appear, ...).
use crate::tape::Tape;
use serde_json::{json, Map, Value};

pub const METHOD_POOL: &[&str] = &[
    "substring", "trim", "trimStart", "trimEnd", "concat", "replace", "replaceAll", "slice", "padStart", "padEnd", "repeat", "toLowerCase",
    "toUpperCase", "join", "foo", "bar",
];
pub const BARE_POOL: &[&str] = &["aloneMethod", "cleanup", "eval"];
pub const LITERAL_CALLER_METHODS: &[&str] = &["concat", "replace", "replaceAll", "padEnd", "padStart", "repeat"];

#[derive(Clone, Debug)]
pub struct CfgInfo {
    pub json: Value,
    /// effective method entries in lookup order: (src, dst, allowed_without_callee) - non operator entries, first entry per src wins
    pub methods: Vec<(String, String, bool)>,
    pub plus: Option<String>,
    pub tpl: Option<String>,
    /// every dst the prologue must define (all entries, operator or not)
    pub all_dst: Vec<String>,
    pub prefix: Option<String>,
    pub chain: bool,
    pub comments: bool,
    pub literals: bool,
    /// OFF | MANDATORY | INFORMATION | DEBUG after the documented defaulting
    pub verbosity: String,
    pub valid: bool,
}

impl CfgInfo {
    pub fn method(&self, src: &str) -> Option<&(String, String, bool)> {
        self.methods.iter().find(|m| m.0 == src)
    }
    pub fn method_names(&self) -> Vec<String> {
        self.methods.iter().map(|m| m.0.clone()).collect()
    }
    pub fn bare_names(&self) -> Vec<String> {
        self.methods.iter().filter(|m| m.2).map(|m| m.0.clone()).collect()
    }
    pub fn other_names(&self) -> Vec<String> {
        METHOD_POOL.iter().filter(|m| self.method(m).is_none()).map(|s| s.to_string()).collect()
    }
    pub fn anything_enabled(&self) -> bool {
        !self.methods.is_empty() || self.plus.is_some() || self.tpl.is_some()
    }
}

/// Derive CfgInfo from a configuration object by the *documented* meaning of the options
/// (README / index.d.ts), not by calling the code under test.
pub fn info_from_json(cfg: &Value) -> CfgInfo {
    let mut methods: Vec<(String, String, bool)> = vec![];
    let mut plus = None;
    let mut tpl = None;
    let mut all_dst = vec![];
    let mut valid = cfg.is_object();
    if let Some(list) = cfg.get("csiMethods") {
        match list.as_array() {
            Some(arr) => {
                for m in arr {
                    let Some(src) = m.get("src").and_then(|s| s.as_str()) else {
                        valid = false;
                        continue;
                    };
                    let dst = m.get("dst").and_then(|s| s.as_str()).unwrap_or(src).to_string();
                    let operator = m.get("operator").and_then(|b| b.as_bool()).unwrap_or(false);
                    let bare = m.get("allowedWithoutCallee").and_then(|b| b.as_bool()).unwrap_or(false);
                    all_dst.push(dst.clone());
                    if operator {
                        if src == "plusOperator" && plus.is_none() {
                            plus = Some(dst);
                        } else if src == "tplOperator" && tpl.is_none() {
                            tpl = Some(dst);
                        }
                    } else if !methods.iter().any(|x| x.0 == src) {
                        methods.push((src.to_string(), dst, bare));
                    }
                }
            }
            None => {
                if !list.is_null() {
                    valid = false
                }
            }
        }
    }
    if !valid {
        // an undecodable configuration falls back to the default one: nothing enabled
        return CfgInfo {
            json: cfg.clone(),
            methods: vec![],
            plus: None,
            tpl: None,
            all_dst: vec![],
            prefix: None,
            chain: false,
            comments: false,
            literals: true,
            verbosity: "INFORMATION".into(),
            valid: false,
        };
    }
    let verbosity = match cfg.get("telemetryVerbosity").and_then(|v| v.as_str()) {
        Some(s) => match s.to_uppercase().as_str() {
            "OFF" => "OFF",
            "MANDATORY" => "MANDATORY",
            "DEBUG" => "DEBUG",
            _ => "INFORMATION",
        },
        None => "INFORMATION",
    }
    .to_string();
    CfgInfo {
        json: cfg.clone(),
        methods,
        plus,
        tpl,
        all_dst,
        prefix: cfg.get("localVarPrefix").and_then(|v| v.as_str()).map(|s| s.to_string()),
        chain: cfg.get("chainSourceMap").and_then(|v| v.as_bool()).unwrap_or(false),
        comments: cfg.get("comments").and_then(|v| v.as_bool()).unwrap_or(false),
        literals: cfg.get("literals").and_then(|v| v.as_bool()).unwrap_or(true),
        verbosity,
        valid: true,
    }
}

pub struct CfgOpts {
    /// always give an explicit localVarPrefix (needed by every check that inspects temporaries)
    pub fixed_prefix: bool,
    /// bias towards "everything enabled" (for checks that want instrumentation to happen)
    pub rich: bool,
}

pub fn gen_cfg(t: &mut Tape, o: &CfgOpts) -> CfgInfo {
    let mut cfg = Map::new();
    let mut list: Vec<Value> = vec![];
    // alternative 0 of each choice = the richest setting when `rich`
    let everything = o.rich && !t.chance(140);
    // operators
    for (name, dflt_dst) in [("plusOperator", "plusOperator"), ("tplOperator", "tplOperator")] {
        let present = everything || t.weighted(&[3, 1]) == 0;
        if !present {
            continue;
        }
        let mut m = Map::new();
        m.insert("src".into(), json!(name));
        match if everything { 0 } else { t.weighted(&[6, 2, 1, 1]) } {
            0 => {
                m.insert("operator".into(), json!(true));
            }
            1 => {
                m.insert("operator".into(), json!(true));
                m.insert("dst".into(), json!(format!("{}X", dflt_dst)));
            }
            2 => {
                m.insert("operator".into(), json!(false));
            }
            _ => {}
        }
        list.push(Value::Object(m));
    }
    // methods
    for name in METHOD_POOL {
        let present = if everything { !matches!(*name, "foo" | "bar" | "padStart" | "join") } else { t.weighted(&[1, 1]) == 0 };
        if !present {
            continue;
        }
        let mut m = Map::new();
        m.insert("src".into(), json!(name));
        match t.weighted(&[5, 3, 2, 1]) {
            0 => {}
            1 => {
                m.insert("dst".into(), json!(format!("string{}{}", name[..1].to_uppercase(), &name[1..])));
            }
            2 => {
                // several sources share one replacement name
                m.insert("dst".into(), json!("shared"));
            }
            _ => {
                m.insert("operator".into(), json!(false));
                m.insert("allowedWithoutCallee".into(), json!(false));
            }
        }
        list.push(Value::Object(m));
    }
    for name in BARE_POOL {
        let present = everything || t.weighted(&[1, 1]) == 0;
        if !present {
            continue;
        }
        let mut m = Map::new();
        m.insert("src".into(), json!(name));
        if everything || t.weighted(&[3, 1]) == 0 {
            m.insert("allowedWithoutCallee".into(), json!(true));
        }
        // renamed bare methods
        if t.chance(90) {
            m.insert("dst".into(), json!(format!("bare{}", name.len())));
        }
        list.push(Value::Object(m));
    }
    if !everything && t.chance(20) {
        // duplicate source with another dst: the first entry is the effective one
        if let Some(first) = list.first().cloned() {
            let mut d = first.as_object().unwrap().clone();
            d.insert("dst".into(), json!("dupDst"));
            list.push(Value::Object(d));
        }
    }
    match if everything { 0 } else { t.weighted(&[12, 1, 1]) } {
        0 => {
            cfg.insert("csiMethods".into(), Value::Array(list));
        }
        1 => {
            cfg.insert("csiMethods".into(), json!([]));
        }
        _ => {}
    }
    if o.fixed_prefix || t.weighted(&[3, 1]) == 0 {
        let p = *t.pick(&["test", "abcdef", "x", "Z9_$"]);
        cfg.insert("localVarPrefix".into(), json!(p));
    }
    match t.weighted(&[3, 1, 1]) {
        0 => {}
        1 => {
            cfg.insert("chainSourceMap".into(), json!(true));
        }
        _ => {
            cfg.insert("chainSourceMap".into(), json!(false));
        }
    }
    match t.weighted(&[3, 1, 1]) {
        0 => {}
        1 => {
            cfg.insert("comments".into(), json!(true));
        }
        _ => {
            cfg.insert("comments".into(), json!(false));
        }
    }
    match t.weighted(&[3, 1, 1]) {
        0 => {}
        1 => {
            cfg.insert("literals".into(), json!(false));
        }
        _ => {
            cfg.insert("literals".into(), json!(true));
        }
    }
    match t.weighted(&[3, 2, 1, 1, 1, 1, 1, 1, 1]) {
        // the names are not case sensitive: the package's own scripts pass 'Debug'
        7 => {
            cfg.insert("telemetryVerbosity".into(), json!("Debug"));
        }
        8 => {
            // (an empty, blank or abbreviated value is an unknown value: the documented default applies)
            cfg.insert("telemetryVerbosity".into(), json!(*t.pick(&["Off", "oFF", "dEbUg", "Mandatory", "", " ", "o", "DEB", "info", "debug "])));
        }
        0 => {}
        1 => {
            cfg.insert("telemetryVerbosity".into(), json!("DEBUG"));
        }
        2 => {
            cfg.insert("telemetryVerbosity".into(), json!("OFF"));
        }
        3 => {
            cfg.insert("telemetryVerbosity".into(), json!("mandatory"));
        }
        4 => {
            cfg.insert("telemetryVerbosity".into(), json!("Information"));
        }
        5 => {
            cfg.insert("telemetryVerbosity".into(), json!("garbage"));
        }
        _ => {
            cfg.insert("telemetryVerbosity".into(), json!("debug"));
        }
    }
    info_from_json(&Value::Object(cfg))
}
