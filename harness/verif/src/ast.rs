//! Independent parsing of JavaScript text into a generic JSON tree of the swc AST
//! (swc_ecma_ast with `serde-impl`). Shares no code with /repo/src.
use serde_json::Value;
use swc_common::{sync::Lrc, FileName, SourceMap, comments::SingleThreadedComments};
use swc_ecma_parser::{parse_file_as_program, EsSyntax, Syntax};

pub fn syntax() -> Syntax {
    Syntax::Es(EsSyntax {
        jsx: false,
        fn_bind: false,
        decorators: false,
        decorators_before_export: false,
        export_default_from: false,
        import_attributes: true,
        allow_super_outside_method: false,
        allow_return_outside_function: true,
        auto_accessors: true,
        ..Default::default()
    })
}

pub struct Parsed {
    pub tree: Value,
    /// byte offset that span positions are relative to (swc BytePos of the file start)
    pub base: u32,
    pub is_module: bool,
    /// (start byte offset in text, is_block, text)
    pub comments: Vec<(u32, bool, String)>,
}

pub fn parse(text: &str) -> Result<Parsed, String> {
    let cm: Lrc<SourceMap> = Default::default();
    let fm = cm.new_source_file(Lrc::new(FileName::Custom("v.js".into())), text.to_string());
    let base = fm.start_pos.0;
    let comments = SingleThreadedComments::default();
    let mut errs = vec![];
    let program = parse_file_as_program(&fm, syntax(), Default::default(), Some(&comments), &mut errs)
        .map_err(|e| format!("{:?}", e.kind()))?;
    if let Some(e) = errs.first() {
        return Err(format!("{:?}", e.kind()));
    }
    let is_module = matches!(program, swc_ecma_ast::Program::Module(_));
    let tree = serde_json::to_value(&program).map_err(|e| e.to_string())?;
    let mut cs = vec![];
    let (leading, trailing) = comments.take_all();
    for map in [leading, trailing] {
        for (_pos, list) in map.borrow().iter() {
            for c in list {
                cs.push((c.span.lo.0 - base, c.kind == swc_common::comments::CommentKind::Block, c.text.to_string()));
            }
        }
    }
    cs.sort();
    Ok(Parsed { tree, base, is_module, comments: cs })
}
