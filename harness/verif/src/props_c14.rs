//! C14: literal collection reports exactly the input's string literals, truly located.
//! Planted literal tables: the generator knows every string-literal expression it writes.
use crate::cfggen::{gen_cfg, info_from_json, CfgOpts};
use crate::engine::{Check, Ctx, Outcome};
use crate::props_static::case_parts;
use crate::rw;
use crate::smap::LineTable;
use crate::tape::Tape;
use serde_json::{json, Value};
use std::collections::BTreeMap;

#[derive(Clone, Debug)]
struct Planted {
    value: String,
    /// how it is written in the source, quotes included
    text: String,
    /// Some(Some(name)) = must be name, Some(None) = must be absent, None = unconstrained
    ident: Option<Option<String>>,
    reported: bool,
    /// free = the statement does not settle whether it is reported (directives ...)
    free: bool,
    tag: &'static str,
}

struct LitGen<'t, 'a> {
    t: &'t mut Tape<'a>,
    counter: usize,
    planted: Vec<Planted>,
    dup_pool: Vec<(String, String)>,
}

impl<'t, 'a> LitGen<'t, 'a> {
    /// a fresh literal: (value, source text)
    fn lit(&mut self, dup: bool) -> (String, String) {
        if dup && !self.dup_pool.is_empty() && self.t.chance(50) {
            let i = self.t.below(self.dup_pool.len());
            return self.dup_pool[i].clone();
        }
        self.counter += 1;
        let id = format!("L{:03}", self.counter);
        // byte lengths around both bounds, ASCII and multi-byte
        let target = *self.t.pick(&[14usize, 11, 10, 9, 12, 40, 256, 257, 255, 300, 64]);
        let multibyte = self.t.chance(70);
        let mut value = id.clone();
        let filler: Vec<char> = if multibyte { vec!['é', 'x', 'ñ', '日'] } else { vec!['a', 'b', '-', ' '] };
        let mut i = 0;
        while value.len() < target {
            let c = filler[i % filler.len()];
            if value.len() + c.len_utf8() > target {
                value.push('_');
            } else {
                value.push(c);
            }
            i += 1;
        }
        let quote = if self.t.flag() { '\'' } else { '"' };
        // some characters written as escapes: the value is what counts
        let text = if self.t.chance(40) && multibyte {
            let escaped: String = value.chars().map(|c| if c == 'é' { "\\u00e9".to_string() } else { c.to_string() }).collect();
            format!("{quote}{escaped}{quote}")
        } else {
            format!("{quote}{value}{quote}")
        };
        let r = (value, text);
        if dup && self.t.chance(60) {
            self.dup_pool.push(r.clone());
        }
        r
    }

    fn plant(&mut self, ident: Option<Option<String>>, reported: bool, free: bool, tag: &'static str) -> String {
        let (value, text) = self.lit(true);
        self.planted.push(Planted { value, text: text.clone(), ident, reported, free, tag });
        text
    }

    fn stmt(&mut self) -> String {
        self.counter += 1;
        let n = self.counter;
        match self.t.below(40) {
            37 => {
                // defaults and computed keys in the pattern of a declaration without initialiser (a for-of / for-in head)
                let l = self.plant(None, true, false, "for-head-pattern-default");
                let l2 = self.plant(None, true, false, "for-head-pattern-key");
                format!("for (const {{ kind = {l}, [{l2}]: other }} of b) {{ x = kind + other; }}")
            }
            38 => {
                let l = self.plant(None, true, false, "for-head-pattern-default");
                format!("for (var [first = {l}] in a) {{ x = first; }}")
            }
            39 => {
                // a call of the hook namespace written in the input itself (a file that was instrumented before)
                let l1 = self.plant(Some(None), true, false, "input-hook-call-first-argument");
                let l2 = self.plant(Some(None), true, false, "input-hook-call-later-argument");
                format!("x = _ddiast.reportedBefore(a + {l1}, a, {l2});")
            }
            36 => {
                // a literal spelled with a lone surrogate escape: 7 + 5 UTF-16 units, no valid UTF-8 spelling of its own
                if crate::known::avoid_flags().lone_surrogate_literal {
                    // (open finding: excluded by construction; an ordinary literal instead)
                    let l = self.plant(None, true, false, "assignment");
                    return format!("x = {l};");
                }
                self.planted.push(Planted { value: "short".into(), text: "'\\uD800abcdefghijk'".into(), ident: None, reported: false, free: false, tag: "lone-surrogate-escape" });
                "x = '\\uD800abcdefghijk';".to_string()
            }
            33 => {
                // a literal as the `this` argument of a prototype call (it is repeated in the rewritten code)
                let l = self.plant(Some(None), true, false, "proto-call-literal-this");
                let m = *self.t.pick(&["concat", "replace", "trim", "substring"]);
                format!("x = String.prototype.{m}.call({l}, b);")
            }
            34 => {
                let l = self.plant(Some(None), true, false, "proto-apply-literal-this");
                let l2 = self.plant(Some(None), true, false, "proto-apply-literal-argument");
                if self.t.flag() {
                    format!("x = String.prototype.concat.apply({l}, [{l2}, b]);")
                } else {
                    format!("x = String.prototype.concat.apply({l}, [b, {l2}]);")
                }
            }
            35 => {
                // literals inside an optional chain that is unfolded, and as receiver of one
                let l = self.plant(Some(None), true, false, "opt-chain-argument");
                let l2 = self.plant(Some(None), true, false, "opt-chain-argument");
                format!("x = a?.b.concat({l}, b)?.[{l2}];")
            }
            30 => {
                // adjacent string literals: a constant sum in leading position / as an argument
                let l1 = self.plant(Some(None), true, false, "adjacent-literal-sum");
                let l2 = self.plant(Some(None), true, false, "adjacent-literal-sum");
                if self.t.flag() {
                    format!("x = {l1} + {l2} + a;")
                } else {
                    format!("x = a.concat({l1} + {l2}, b);")
                }
            }
            31 => {
                let l1 = self.plant(Some(None), true, false, "adjacent-literal-sum-template");
                let l2 = self.plant(Some(None), true, false, "adjacent-literal-sum-template");
                format!("x = `${{a}}${{{l1} + {l2}}}`;")
            }
            32 => {
                // one value at a dozen places
                let (value, text) = self.lit(false);
                for _ in 0..12 {
                    self.planted.push(Planted { value: value.clone(), text: text.clone(), ident: Some(None), reported: true, free: false, tag: "same-value-dozen" });
                }
                format!("x = [{}];", vec![text.as_str(); 12].join(", "))
            }
            28 => {
                // a string literal as computed member name of a call; sometimes it spells a configured method name
                if self.t.flag() {
                    let m = *self.t.pick(&["toLowerCase", "toUpperCase", "toLocaleString", "replaceAll!"]);
                    self.planted.push(Planted { value: m.to_string(), text: format!("'{m}'"), ident: None, reported: true, free: false, tag: "computed-method-name-configured" });
                    format!("x = a['{m}']();")
                } else {
                    let k = self.plant(None, true, false, "computed-method-name");
                    format!("x = a[{k}](b);")
                }
            }
            29 => {
                let m = *self.t.pick(&["toLowerCase", "toUpperCase"]);
                self.planted.push(Planted { value: m.to_string(), text: format!("\"{m}\""), ident: None, reported: true, free: false, tag: "computed-method-name-configured" });
                let l = self.plant(Some(None), true, false, "method-argument");
                format!("x = a.b[\"{m}\"]({l}) + b;")
            }
            26 => {
                // a string literal as (or inside) a computed key whose property value is a string literal too
                let k = self.plant(None, true, false, "computed-key-literal");
                let v = self.plant(None, true, false, "computed-key-literal-value");
                format!("const o{n} = {{ [{k}]: {v} }};")
            }
            27 => {
                let k = self.plant(Some(None), true, false, "computed-key-call-argument");
                let v = self.plant(None, true, false, "computed-key-literal-value");
                format!("const o{n} = {{ [h({k})]: {v}, plain: 1 }};")
            }
            22 => {
                // the same value twice inside one construct
                let (value, text) = self.lit(true);
                for key in ["user", "pass"] {
                    self.planted.push(Planted { value: value.clone(), text: text.clone(), ident: Some(Some(key.to_string())), reported: true, free: false, tag: "same-value-twice-object" });
                }
                format!("const o{n} = {{ user: {text}, pass: {text} }};")
            }
            23 => {
                let (value, text) = self.lit(true);
                for _ in 0..2 {
                    self.planted.push(Planted { value: value.clone(), text: text.clone(), ident: Some(None), reported: true, free: false, tag: "same-value-twice-call" });
                }
                format!("x = a.concat({text}, b, {text});")
            }
            24 => {
                let (value, text) = self.lit(true);
                for _ in 0..2 {
                    self.planted.push(Planted { value: value.clone(), text: text.clone(), ident: Some(None), reported: true, free: false, tag: "same-value-twice-plus" });
                }
                format!("x = {text} + a + {text};")
            }
            25 => {
                let (value, text) = self.lit(true);
                for _ in 0..3 {
                    self.planted.push(Planted { value: value.clone(), text: text.clone(), ident: Some(None), reported: true, free: false, tag: "same-value-thrice-array" });
                }
                format!("x = [{text}, {text}, a, {text}];")
            }
            0 => {
                let kw = *self.t.pick(&["var", "let", "const"]);
                let name = format!("v{n}");
                let l = self.plant(Some(Some(name.clone())), true, false, "declarator");
                format!("{kw} {name} = {l};")
            }
            1 => {
                let l = self.plant(Some(None), true, false, "plus-operand");
                format!("x = {l} + a;")
            }
            2 => {
                let l = self.plant(Some(None), true, false, "plus-operand");
                format!("x = a +\n      {l} + b;")
            }
            3 => {
                let l = self.plant(Some(None), true, false, "argument");
                format!("h({l}, 1);")
            }
            4 => {
                let l = self.plant(Some(Some("key".into())), true, false, "object-ident-key");
                format!("const o{n} = {{ key: {l} }};")
            }
            5 => {
                let l = self.plant(None, true, false, "object-string-key");
                format!("const o{n} = {{ 'str key': {l}, [a]: 1 }};")
            }
            6 => {
                let l = self.plant(None, true, false, "object-computed-key");
                format!("const o{n} = {{ [b]: {l} }};")
            }
            7 => {
                let l = self.plant(Some(None), true, false, "array-element");
                format!("x = [{l}, 2];")
            }
            8 => {
                let l = self.plant(None, false, false, "require");
                format!("const m{n} = require({l});")
            }
            9 => {
                let l1 = self.plant(None, false, false, "require");
                let l2 = self.plant(None, false, false, "require-second-arg");
                format!("const m{n} = require({l1}, {l2});")
            }
            10 => {
                let l = self.plant(None, false, false, "new-regexp");
                format!("const r{n} = new RegExp({l});")
            }
            11 => {
                let l = self.plant(None, true, false, "new-regexp-second-arg");
                format!("const r{n} = new RegExp(a, {l});")
            }
            12 => {
                let l = self.plant(None, true, false, "regexp-call");
                format!("const r{n} = RegExp({l});")
            }
            13 => {
                // decoys: not string-literal expressions
                let (v, t) = self.lit(false);
                let _ = v;
                format!("const d{n} = {{ {t}: 1 }};")
            }
            14 => {
                let (v, _) = self.lit(false);
                format!("const d{n} = `{}`;", v.replace('`', ""))
            }
            15 => {
                let l = self.plant(Some(None), true, false, "method-argument");
                format!("x = a.substring(1).concat({l});")
            }
            16 => {
                let l = self.plant(Some(None), true, false, "template-substitution");
                format!("x = `q${{{l}}}w${{a}}`;")
            }
            17 => {
                let l = self.plant(Some(None), true, false, "string-receiver");
                format!("x = {l}.concat(a);")
            }
            18 => {
                let l = self.plant(None, true, false, "assignment");
                format!("x = {l};")
            }
            19 => {
                let l = self.plant(None, true, false, "class-field");
                format!("class K{n} {{ f = {l}; m() {{ return 1; }} }}")
            }
            20 => {
                let name = format!("v{n}");
                let name2 = format!("w{n}");
                let l1 = self.plant(Some(Some(name.clone())), true, false, "declarator");
                let l2 = self.plant(Some(Some(name2.clone())), true, false, "declarator");
                format!("let {name} = {l1},\n\t{name2} = {l2};")
            }
            _ => {
                let l = self.plant(Some(None), true, false, "add-assign");
                format!("y += {l};")
            }
        }
    }
}

pub struct C14;

impl Check for C14 {
    fn id(&self) -> &'static str {
        "C14"
    }
    fn decode(&self, tape: &[u8], _stream: usize) -> Value {
        let mut t = Tape::new(tape);
        let literals_on = !t.chance(30);
        let crlf = t.chance(40);
        let module = t.chance(40);
        let mut cfg = gen_cfg(&mut t, &CfgOpts { fixed_prefix: true, rich: true });
        let mut j = cfg.json.clone();
        match (literals_on, t.flag()) {
            (true, true) => {
                j["literals"] = json!(true);
            }
            (true, false) => {
                j.as_object_mut().unwrap().remove("literals");
            }
            (false, _) => {
                j["literals"] = json!(false);
            }
        }
        cfg = info_from_json(&j);
        let mut g = LitGen { t: &mut t, counter: 0, planted: vec![], dup_pool: vec![] };
        let mut src = String::new();
        if module {
            src.push_str("import def from 'an import source longer than ten';\n");
        }
        // top level
        let n_top = g.t.below(3);
        for _ in 0..n_top {
            src.push_str(&g.stmt());
            src.push('\n');
        }
        src.push_str("function f(a, b) {\n  let x = a, y = 'y0';\n");
        let n = 1 + g.t.below(8);
        for _ in 0..n {
            let indent = *g.t.pick(&["  ", "\t", "    /* 日本 */ ", "  /* 😀 */ "]);
            src.push_str(indent);
            src.push_str(&g.stmt());
            src.push('\n');
        }
        src.push_str("  function inner(p) {\n");
        let n = g.t.below(3);
        for _ in 0..n {
            src.push_str("    ");
            src.push_str(&g.stmt());
            src.push('\n');
        }
        src.push_str("    return p;\n  }\n  return [x, y, inner];\n}\n");
        if crlf {
            src = src.replace('\n', "\r\n");
        }
        // sometimes the file carries a (non-identity) map of its own and chaining is on: the report still speaks of the input text
        if g.t.chance(60) {
            let lines = src.lines().count() as u32;
            let segs: Vec<crate::smap::Seg> = (0..lines).map(|l| crate::smap::Seg { gen_line: l, gen_col: 0, src: Some((0, 2 * l + 5, 7, None)) }).collect();
            let m = crate::smap::Map { version: 3, sources: vec!["lits.ts".into()], names: vec![], source_root: None, segs, has_sections: false };
            let mj = crate::smap::encode_map(&m, &json!({}));
            src.push_str(&format!("//# sourceMappingURL=data:application/json;base64,{}\n", crate::smap::encode_base64(mj.to_string().as_bytes())));
            j["chainSourceMap"] = json!(true);
            cfg = info_from_json(&j);
        }
        let planted: Vec<Value> = g
            .planted
            .iter()
            .map(|p| {
                json!({"value": p.value, "text": p.text, "reported": p.reported, "free": p.free, "tag": p.tag,
                       "ident": match &p.ident { None => json!("any"), Some(None) => Value::Null, Some(Some(n)) => json!({"name": n}) }})
            })
            .collect();
        json!({"src": src, "cfg": cfg.json, "file": "/app/src/lits.js", "planted": planted})
    }
    fn rule(&self) -> String {
        "planted literal tables: string literals with unique payloads (byte lengths 9,10,11,..,255,256,257 and more, ASCII and multi-byte, some spelled with \
         escapes, duplicates of one value at several places) written as operands of instrumented operations, arguments, var/let/const initialisers, object values \
         (identifier / string / computed keys), elements, class fields, nested functions, top level, require(..) / new RegExp(..) / RegExp(..) arguments, with \
         decoys (property keys, import sources, template quasis), tabs / CRLF / non-ASCII and astral characters before the literal; literals on / off / omitted. \
         Oracle: the reported set equals the expected table (10 < bytes <= 256, not under require('..') / new RegExp('..')), each value once, locations exactly the \
         expected multiset with the 1-based line and column of the opening quote in the input text, ident = the declared variable / identifier key, absent for \
         operands / arguments / elements, unconstrained elsewhere; literals:false => no report; metamorphic: same report under the empty method list; \
         non-trivial = distinct case with >= 1 expected literal inside an instrumented operation and >= 1 excluded or decoy literal"
            .into()
    }
    fn assumptions(&self) -> Vec<String> {
        vec!["columns are code points; on lines with astral characters before the literal either code point or UTF-16 columns are accepted".into()]
    }
    fn eval(&self, case: &Value, _ctx: &mut Ctx) -> Outcome {
        let (src, cfg, file) = case_parts(case);
        let out = rw::rewrite_simple(&cfg.json, &src, &file);
        let v = match &out {
            rw::Outcome::Ok(v) => v.clone(),
            rw::Outcome::Err(_) => return Outcome::skip("rewriter returned an error"),
            rw::Outcome::Panic(_) => return Outcome::skip("rewriter panicked (C13)"),
        };
        let report = &v["literalsResult"];
        let mut classes = vec![format!("status:{}", v["metrics"]["status"].as_str().unwrap_or("?")), format!("literals:{}", cfg.literals)];
        if !cfg.literals {
            return if report.is_null() { Outcome::pass(false, classes) } else { Outcome::fail("report-when-disabled", "literal collection is disabled but a report was produced") };
        }
        if report.is_null() {
            return Outcome::fail("report-missing", "literal collection is enabled but no report was produced");
        }
        if report["file"].as_str() != Some(file.as_str()) {
            return Outcome::fail("report-file", format!("report.file is {}", report["file"]));
        }
        // expected table
        let table = LineTable::new(&src);
        let planted = case["planted"].as_array().cloned().unwrap_or_default();
        // occurrences of each planted literal text, in order
        let mut expected: BTreeMap<String, Vec<(u32, u32, u32, Value)>> = BTreeMap::new();
        let mut cursor: BTreeMap<String, usize> = BTreeMap::new();
        let mut excluded = 0;
        let mut inside_instrumented = 0;
        for p in &planted {
            let text = p["text"].as_str().unwrap_or("");
            let value = p["value"].as_str().unwrap_or("").to_string();
            let start = *cursor.get(text).unwrap_or(&0);
            let Some(off) = src[start..].find(text).map(|i| i + start) else {
                return Outcome::inconclusive("planted literal not found in the source");
            };
            cursor.insert(text.to_string(), off + text.len());
            classes.push(format!("plant:{}", p["tag"].as_str().unwrap_or("")));
            let in_range = value.len() > 10 && value.len() <= 256;
            if p["reported"] == json!(true) && in_range {
                let (line, c16, cch) = table.locate(off);
                expected.entry(value).or_default().push((line + 1, cch + 1, c16 + 1, p["ident"].clone()));
                if matches!(p["tag"].as_str(), Some("plus-operand") | Some("method-argument") | Some("template-substitution") | Some("add-assign") | Some("string-receiver")) {
                    inside_instrumented += 1;
                }
            } else {
                excluded += 1;
            }
        }
        // the decoys and fixed strings of the skeleton are short or not expressions: nothing else is expected,
        // except the fixed `'y0'` (2 bytes) - too short
        let got = report["literals"].as_array().cloned().unwrap_or_default();
        let mut seen_values = std::collections::BTreeSet::new();
        for g in &got {
            let val = g["value"].as_str().unwrap_or("").to_string();
            if !seen_values.insert(val.clone()) {
                return Outcome::fail("value-duplicated", format!("value {:?} is listed twice", val.chars().take(30).collect::<String>()));
            }
            let Some(exp) = expected.get(&val) else {
                // a value that still shows the text of a lone surrogate escape (`\uD800`): the dependency's representation of
                // such a literal, reported with a length and a value that are not the literal's
                let lone = val.as_bytes().windows(4).any(|w| w[0] == b'\\' && w[1] == b'u' && (w[2] == b'D' || w[2] == b'd') && matches!(w[3], b'8'..=b'9' | b'a'..=b'f' | b'A'..=b'F'));
                let why = if lone && planted.iter().any(|p| p["tag"] == json!("lone-surrogate-escape")) { "lone-surrogate-literal" } else if val.len() <= 10 || val.len() > 256 { "length-bound" } else { "unexpected-entry" };
                return Outcome::fail(why, format!("reported literal {:?} ({} bytes) is not an expected string-literal expression of the input", val.chars().take(40).collect::<String>(), val.len()));
            };
            let mut pool = exp.clone();
            let locs = g["locations"].as_array().cloned().unwrap_or_default();
            for l in &locs {
                let line = l["line"].as_u64().unwrap_or(0) as u32;
                let col = l["column"].as_u64().unwrap_or(0) as u32;
                let ident = &l["ident"];
                let pos = pool.iter().position(|(el, ech, e16, _)| *el == line && (*ech == col || *e16 == col));
                let Some(i) = pos else {
                    return Outcome::fail(
                        "location",
                        format!("literal {:?} reported at {}:{} but its occurrences are at {:?}", val.chars().take(30).collect::<String>(), line, col, exp.iter().map(|e| (e.0, e.1)).collect::<Vec<_>>()),
                    );
                };
                let (_, _, _, want) = pool.remove(i);
                match &want {
                    Value::String(s) if s == "any" => {}
                    Value::Null => {
                        if !ident.is_null() {
                            return Outcome::fail("ident", format!("literal {:?} at {}:{} initialises nothing but is reported with ident {}", val.chars().take(30).collect::<String>(), line, col, ident));
                        }
                    }
                    w => {
                        if ident.as_str() != w["name"].as_str() {
                            return Outcome::fail("ident", format!("literal {:?} at {}:{} initialises {} but is reported with ident {}", val.chars().take(30).collect::<String>(), line, col, w["name"], ident));
                        }
                    }
                }
            }
            if !pool.is_empty() {
                return Outcome::fail("location-missing", format!("literal {:?}: occurrence(s) at {:?} not reported", val.chars().take(30).collect::<String>(), pool.iter().map(|e| (e.0, e.1)).collect::<Vec<_>>()));
            }
        }
        for (val, _) in &expected {
            if !seen_values.contains(val) {
                return Outcome::fail("missing-entry", format!("string literal {:?} ({} bytes) of the input is not reported", val.chars().take(40).collect::<String>(), val.len()));
            }
        }
        // metamorphic: instrumentation neither adds, removes, duplicates nor relocates
        let mut j0 = cfg.json.clone();
        j0["csiMethods"] = json!([]);
        if let rw::Outcome::Ok(v0) = rw::rewrite_simple(&j0, &src, &file) {
            let norm = |r: &Value| -> Vec<String> {
                let mut out = vec![];
                if let Some(a) = r["literals"].as_array() {
                    for l in a {
                        let mut locs: Vec<String> = l["locations"].as_array().map(|x| x.iter().map(|y| y.to_string()).collect()).unwrap_or_default();
                        locs.sort();
                        out.push(format!("{}@{}", l["value"], locs.join(";")));
                    }
                }
                out.sort();
                out
            };
            if norm(report) != norm(&v0["literalsResult"]) {
                return Outcome::fail("instrumentation-changes-report", "the report under this configuration differs from the report under the empty method list");
            }
        }
        Outcome::pass(inside_instrumented >= 1 && excluded >= 1, classes)
    }
}
