//! Choice tape: the single generated value of every proptest case and the input of every
//! structure-aware fuzz target. Decoding is deterministic; an exhausted tape answers 0, which every
//! generator maps to its smallest alternative, so decoding always terminates and shorter / zeroed
//! tapes mean simpler cases (which is what proptest's vec shrinking produces).
pub struct Tape<'a> {
    bytes: &'a [u8],
    pos: usize,
}

impl<'a> Tape<'a> {
    pub fn new(bytes: &'a [u8]) -> Self {
        Tape { bytes, pos: 0 }
    }

    pub fn byte(&mut self) -> u8 {
        let b = self.bytes.get(self.pos).copied().unwrap_or(0);
        if self.pos < self.bytes.len() {
            self.pos += 1;
        }
        b
    }

    pub fn exhausted(&self) -> bool {
        self.pos >= self.bytes.len()
    }

    pub fn consumed(&self) -> usize {
        self.pos
    }

    /// Monotone map of one byte onto 0..n (n <= 256): smaller byte => smaller index.
    pub fn below(&mut self, n: usize) -> usize {
        if n <= 1 {
            return 0;
        }
        if n <= 256 {
            (self.byte() as usize * n) >> 8
        } else {
            let v = ((self.byte() as usize) << 8) | self.byte() as usize;
            (v * n) >> 16
        }
    }

    pub fn range(&mut self, lo: usize, hi_incl: usize) -> usize {
        lo + self.below(hi_incl - lo + 1)
    }

    pub fn flag(&mut self) -> bool {
        self.byte() >= 128
    }

    /// true with probability ~ num/256; a zero byte is always false.
    pub fn chance(&mut self, num: u32) -> bool {
        let b = self.byte() as u32;
        b > 0 && b >= 256 - num.min(255)
    }

    /// Weighted choice; alternative 0 is what an exhausted tape picks.
    pub fn weighted(&mut self, weights: &[u32]) -> usize {
        let total: u32 = weights.iter().sum();
        if total == 0 {
            return 0;
        }
        let v = ((self.byte() as u32) << 8) | self.byte() as u32; // 0..65535
        let mut x = (v as u64 * total as u64 >> 16) as u32;
        for (i, w) in weights.iter().enumerate() {
            if x < *w {
                return i;
            }
            x -= *w;
        }
        weights.len() - 1
    }

    pub fn pick<'b, T>(&mut self, items: &'b [T]) -> &'b T {
        &items[self.below(items.len())]
    }

    pub fn u16(&mut self) -> u16 {
        ((self.byte() as u16) << 8) | self.byte() as u16
    }

    pub fn u32(&mut self) -> u32 {
        ((self.u16() as u32) << 16) | self.u16() as u32
    }
}
