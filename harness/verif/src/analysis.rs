//! Shared static pipeline: rewrite (code under test) -> independent parse of input and output ->
//! eraser round trip -> site predicate. Individual properties pick their verdicts from the result.
use crate::ast::{self, Parsed};
use crate::cfggen::CfgInfo;
use crate::erase::{self, EraseError, Erased};
use crate::rw::{self, Outcome};
use crate::sites::{Site, SiteWalker};
use serde_json::Value;

pub struct Analysis {
    pub outcome: Outcome,
    pub src: Result<Parsed, String>,
    pub out: Option<Result<Parsed, String>>,
    pub body: Option<String>,
    pub trailer: Option<String>,
    pub prefix: Option<String>,
    pub erased: Option<Result<Erased, EraseError>>,
    pub sites: Vec<Site>,
}

pub const TRAILER_START: &str = "//# sourceMappingURL=data:application/json;base64,";

/// split content into (body, base64 payload of the last-line trailer)
pub fn split_trailer(content: &str) -> Option<(String, String)> {
    let idx = content.rfind('\n')?;
    let last = &content[idx + 1..];
    let payload = last.strip_prefix(TRAILER_START)?;
    Some((content[..idx].to_string(), payload.to_string()))
}

pub fn detect_prefix(content: &str) -> Option<String> {
    let key = "__datadog_";
    let i = content.find(key)?;
    let rest = &content[i + key.len()..];
    let end = rest.find('_')?;
    Some(rest[..end].to_string())
}

pub fn analyze(src: &str, cfg: &CfgInfo, file: &str) -> Analysis {
    let outcome = rw::rewrite_simple(&cfg.json, src, file);
    analyze_outcome(src, cfg, outcome)
}

pub fn analyze_outcome(src: &str, cfg: &CfgInfo, outcome: Outcome) -> Analysis {
    let src_parsed = ast::parse(src);
    let mut a = Analysis { outcome, src: src_parsed, out: None, body: None, trailer: None, prefix: None, erased: None, sites: vec![] };
    if !a.outcome.is_modified() {
        return a;
    }
    let content = a.outcome.content().unwrap_or("").to_string();
    let body = match split_trailer(&content) {
        Some((b, t)) => {
            a.trailer = Some(t);
            b
        }
        None => content.clone(),
    };
    a.prefix = cfg.prefix.clone().or_else(|| detect_prefix(&body));
    let out_parsed = ast::parse(&body);
    a.body = Some(body);
    if let (Ok(sp), Ok(op)) = (&a.src, &out_parsed) {
        let prefix = a.prefix.clone().unwrap_or_else(|| "\u{0}none".to_string());
        let r = erase::round_trip(&sp.tree, &op.tree, &prefix);
        if let Ok(er) = &r {
            let mut w = SiteWalker::new(cfg);
            w.walk_program(&er.input);
            a.sites = w.sites;
        }
        a.erased = Some(r);
    }
    a.out = Some(out_parsed);
    a
}

/// sites of the input alone (no rewrite): used for expectations on not-modified results
pub fn input_sites(src_tree: &Value, cfg: &CfgInfo) -> Vec<Site> {
    let mut input = erase::normalize(src_tree);
    erase::canonicalize(&mut input);
    let mut w = SiteWalker::new(cfg);
    w.walk_program(&input);
    w.sites
}
