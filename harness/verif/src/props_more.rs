//! C07 (static), C08, C12, C13, C15, C16.
use crate::analysis::{analyze, split_trailer};
use crate::ast;
use crate::cfggen::{gen_cfg, info_from_json, CfgOpts};
use crate::engine::{Check, Ctx, Outcome};
use crate::erase::{ty, Eraser};
use crate::gen::gen_program_t;
use crate::node;
use crate::props_static::{case_parts, decode_prog_case, opts_for, owner_of, prepare, Pre};
use crate::rw::{self, MemReader, ReadOutcome};
use crate::sites::Expect;
use crate::smap;
use crate::tape::Tape;
use serde_json::{json, Value};
use std::collections::BTreeMap;

fn tags_of(case: &Value) -> Vec<String> {
    case["tags"].as_array().map(|a| a.iter().filter_map(|t| t.as_str().map(|s| s.to_string())).collect()).unwrap_or_default()
}

// ------------------------------------------------------------------------------------------ C15

pub struct C15;

impl Check for C15 {
    fn id(&self) -> &'static str {
        "C15"
    }
    fn decode(&self, tape: &[u8], _stream: usize) -> Value {
        decode_prog_case(tape, false, true, false)
    }
    fn rule(&self) -> String {
        "programs mixing instrumented operations, literal-only sums, unconfigured methods and optional chains in generated order x every verbosity; oracle: \
         metrics.instrumentedPropagation == number of hook call sites in parse(content) (0 when OFF), propagationDebug == those sites keyed by the tag of the \
         input node they land on (+, +=, Tpl, method source name) in DEBUG and absent otherwise, status string and file echo the call; \
         non-trivial = distinct case with >= 2 hook sites of >= 2 tags and >= 1 inspected-but-unrewritten operation after the first hook site"
            .into()
    }
    fn eval(&self, case: &Value, ctx: &mut Ctx) -> Outcome {
        let a = match prepare(case) {
            Pre::Ready(a) => a,
            Pre::Done(o) => return o,
        };
        let (src, cfg, file) = case_parts(case);
        let mut classes = tags_of(case);
        classes.push(format!("verbosity:{}", cfg.verbosity));
        let rw::Outcome::Ok(v) = &a.outcome else { return Outcome::skip("no result") };
        // package level (sampled): the metrics of every response name the file of its own call, also when the same text
        // comes again under the same base name in another directory
        if std::env::var("VERIF_NO_NODE").is_err() && crate::engine::hash_str(&src) % 24 == 0 && std::path::Path::new(&file).is_absolute() {
            let req = json!({"cmd": "package", "op": "metricsfile", "code": src, "file": file, "native": v, "config": cfg.json});
            match node::call(ctx, &req) {
                Ok(r) => {
                    if let Some(e) = r.get("error") {
                        return Outcome::inconclusive(format!("package worker: {}", e.as_str().unwrap_or("").chars().take(80).collect::<String>()));
                    }
                    for k in ["cache", "nocache"] {
                        if r[k]["ok"] != json!(true) {
                            return Outcome::fail("package-metrics-file", format!("{k} rewriter: metrics.file does not match the call: {}", r[k]));
                        }
                    }
                }
                Err(e) => return Outcome::inconclusive(format!("node worker: {e}")),
            }
        }
        let m = &v["metrics"];
        if m.is_null() {
            return Outcome::fail("metrics-missing", "result carries no metrics");
        }
        if m["file"].as_str() != Some(file.as_str()) {
            return Outcome::fail("metrics-file", format!("metrics.file is {} for a call with file {:?}", m["file"], file));
        }
        let status = m["status"].as_str().unwrap_or("");
        if status != "modified" && status != "notmodified" {
            return Outcome::fail("metrics-status", format!("unexpected status string {status:?}"));
        }
        let count = m["instrumentedPropagation"].as_u64();
        let debug = &m["propagationDebug"];
        let (expected_count, expected_tags): (u64, BTreeMap<String, u64>) = if status == "modified" {
            let Some(Ok(out_parsed)) = &a.out else { return Outcome::skip("output unparsable (C08)") };
            match a.erased.as_ref().unwrap() {
                Err(e) => {
                    // the round trip failed (another property's business), but the count can still be compared with the
                    // number of `_ddiast.<name>(..)` call sites that are literally in the output
                    let n = count_hook_call_sites(&out_parsed.tree);
                    let off = cfg.verbosity == "OFF";
                    let want = if off { 0 } else { n };
                    if count != Some(want) {
                        return Outcome::fail(
                            if count.unwrap_or(0) > want { "count-too-high" } else { "count-too-low" },
                            format!("instrumentedPropagation is {:?} but the output contains {} hook call site(s) (verbosity {}; round trip failed: {})", count, n, cfg.verbosity, e.sig),
                        );
                    }
                    return Outcome::skip(format!("round trip failed: {} ({})", e.sig, owner_of(&e.sig)));
                }
                Ok(er) => {
                    let mut tags = BTreeMap::new();
                    let mut n = 0;
                    for s in &a.sites {
                        if s.hooked.is_some() {
                            n += 1;
                            *tags.entry(s.tag.clone()).or_insert(0u64) += 1;
                        }
                    }
                    if n != er.hooks.len() as u64 {
                        return Outcome::skip("a hook sits on a node the site walker does not classify");
                    }
                    (n, tags)
                }
            }
        } else {
            (0, BTreeMap::new())
        };
        let off = cfg.verbosity == "OFF";
        let want = if off { 0 } else { expected_count };
        if count != Some(want) {
            return Outcome::fail(
                if count.unwrap_or(0) > want { "count-too-high" } else { "count-too-low" },
                format!("instrumentedPropagation is {:?} but the output contains {} hook call site(s) (verbosity {}): tags {:?}", count, expected_count, cfg.verbosity, expected_tags),
            );
        }
        if cfg.verbosity == "DEBUG" {
            let Some(map) = debug.as_object() else {
                return Outcome::fail("debug-missing", "DEBUG verbosity but no propagationDebug map");
            };
            let got: BTreeMap<String, u64> = map.iter().map(|(k, v)| (k.clone(), v.as_u64().unwrap_or(0))).filter(|(_, v)| *v > 0).collect();
            if got != expected_tags {
                return Outcome::fail("debug-tags", format!("propagationDebug is {:?} but the hook sites are {:?}", got, expected_tags));
            }
        } else if !debug.is_null() {
            return Outcome::fail("debug-present", format!("propagationDebug produced with verbosity {}", cfg.verbosity));
        }
        // non-trivial: >= 2 hooks of >= 2 tags and an uninstrumented inspected operation (FREE/forbidden site without hook)
        let unhooked = a.sites.iter().filter(|s| s.hooked.is_none()).count();
        Outcome::pass(expected_count >= 2 && expected_tags.len() >= 2 && unhooked >= 1, classes)
    }
}

// ------------------------------------------------------------------------------------------ C12

pub struct C12;

pub fn decode_sitefree_case(tape: &[u8]) -> Value {
    let mut t = Tape::new(tape);
    let mode = t.weighted(&[2, 2, 1]);
    let refkind = t.weighted(&[6, 1, 1, 1]);
    let odd = t.weighted(&[6, 1, 1, 1, 1]);
    // a file with thousands of small statements: its embedded map alone is hundreds of kilobytes
    let many = t.chance(1) && t.chance(96);
    // file names without a directory, without a final component, outside ASCII
    let file = *t.pick(&["/app/src/gen.js", "/app/src/gen.js", "/app/src/gen.js", "gen.js", "", "/", ".", "..", "/app/src/..", "/app/src/", "/app/caf\u{e9}/\u{540d}.js"]);
    let mut cfg = gen_cfg(&mut t, &CfgOpts { fixed_prefix: true, rich: mode == 2 });
    if mode == 0 {
        // nothing that the generated program uses is enabled: operators off, only never-used method names configured
        let mut j = cfg.json.clone();
        let methods: Vec<Value> = j["csiMethods"]
            .as_array()
            .cloned()
            .unwrap_or_default()
            .into_iter()
            .filter(|m| m["operator"] != json!(true) && m["allowedWithoutCallee"] != json!(true))
            .collect();
        j["csiMethods"] = Value::Array(methods);
        cfg = info_from_json(&j);
    }
    let mut o = opts_for(&cfg, false);
    o.allow_module = true;
    if mode == 0 {
        // the program only uses names that are not configured
        o.methods = vec![];
        o.bare = vec![];
        if o.other_methods.is_empty() {
            o.other_methods = vec!["neverConfigured".into()];
        }
    }
    let p = gen_program_t(&mut t, &o);
    let mut src = p.src.clone();
    // odd bytes that must come back untouched
    match odd {
        1 => src = format!("\u{feff}{src}"),
        2 => src = src.replace('\n', "\r\n"),
        3 => src.push_str("var odd = 'lone \\ud800 surrogate \\0 nul';\n"),
        4 => src.push_str(&format!("var long = '{}';\n", "x".repeat(3000))),
        _ => {}
    }
    // a binding that happens to be called like the hook namespace (parameter, catch clause, destructured local) in code
    // without any instrumented operation: the prologue of the file has to be there all the same
    if t.chance(25) {
        src.push_str(*t.pick(&["function shadows(_ddiast) { return 1; }\n", "try { null.x } catch (_ddiast) { }\n", "function shadows2(o) { const { p: _ddiast } = o; return 2; }\n"]));
    }
    let mut tags: Vec<&str> = p.tags.iter().copied().collect();
    if many {
        tags.push("many-statements");
        src.push_str("function manyStatements(a, b) {\n  let y = '';\n");
        for k in 0..1200 {
            src.push_str(&format!("  y = a + b + 'k{k}' + `${{a}}${{b}}`;\n"));
        }
        // (a text that looks like the embedded reference, inside a template literal: what a build tool's own source contains)
        src.push_str("  return y + `//# sourceMappingURL=data:application/json;base64,${a}`;\n}\n");
    }
    // sometimes a source-map reference (usable or not) with chaining on: the trailer must be there all the same
    let mut cfgj = cfg.json.clone();
    match refkind {
        1 => {
            src.push_str("//# sourceMappingURL=not-shipped.js.map\n");
            cfgj["chainSourceMap"] = json!(true);
        }
        2 => {
            src.push_str("//# sourceMappingURL=data:application/json;base64,@@@\n");
            cfgj["chainSourceMap"] = json!(true);
        }
        3 => {
            src.push_str("//# sourceMappingURL=data:application/json;base64,eyJ2ZXJzaW9uIjozLCJzb3VyY2VzIjpbImEudHMiXSwibmFtZXMiOltdLCJtYXBwaW5ncyI6IkFBQUEifQ==\n");
            cfgj["chainSourceMap"] = json!(true);
        }
        _ => {}
    }
    json!({"src": src, "cfg": cfgj, "file": file, "tags": tags, "mode": mode})
}

impl Check for C12 {
    fn id(&self) -> &'static str {
        "C12"
    }
    fn decode(&self, tape: &[u8], _stream: usize) -> Value {
        decode_sitefree_case(tape)
    }
    fn rule(&self) -> String {
        "site-free programs (nothing they use is enabled; literal-only sums, excluded positions, concise arrows and optional chains that are normalised \
         internally, odd bytes) and instrumented programs under all configs; oracle: status notmodified => code, map and printed content empty, no prologue, \
         no trailer, metrics status notmodified, and (package level, real main.js in Node) content === the caller's source; status modified => >= 1 \
         _ddiast.<configured dst>(..) call outside the prologue, prologue present, valid trailer; no instrumentable (MUST) site => notmodified; \
         non-trivial = distinct not-modified input containing >= 1 internally normalised construct or literal-only/excluded operation"
            .into()
    }
    fn eval(&self, case: &Value, ctx: &mut Ctx) -> Outcome {
        if let Some(n) = case["huge"].as_u64() {
            // a bundle of several megabytes (kept as a recipe, not as text): the result of a modified file still carries
            // code, prologue, hooks and the embedded map - checked on the text, without parsing 12 MB of output
            let (_, cfg, file) = case_parts(case);
            let mut src = String::with_capacity(n as usize * 200);
            for i in 0..n {
                src.push_str(&format!("function module{i}(exports, dep) {{ const name = dep.name + '-{i}'; exports.id = `m${{name}}`; return name.trim() + dep.suffix; }}\n"));
            }
            return match rw::rewrite_simple(&cfg.json, &src, &file) {
                rw::Outcome::Ok(v) => {
                    let content = v["content"].as_str().unwrap_or("");
                    if v["metrics"]["status"] != json!("modified") {
                        return Outcome::fail("huge-not-modified", "a bundle full of enabled operations is reported not modified");
                    }
                    let Some((body, payload)) = split_trailer(content) else {
                        return Outcome::fail("modified-without-trailer", format!("a source of {} bytes is reported modified but its content ({} bytes) does not end with the embedded map", src.len(), content.len()));
                    };
                    if smap::decode_base64(&payload).and_then(|b| serde_json::from_slice::<Value>(&b).ok()).is_none() {
                        return Outcome::fail("modified-without-trailer", "trailer payload is not base64 of JSON");
                    }
                    if !body.contains("_ddiast.") || !body.contains("typeof _ddiast") {
                        return Outcome::fail("modified-without-hook", "huge modified file without hooks or prologue");
                    }
                    Outcome::pass(true, vec!["huge-file".into()])
                }
                rw::Outcome::Err(e) => Outcome::fail("huge-error", format!("error for a plain big file: {}", e.chars().take(100).collect::<String>())),
                rw::Outcome::Panic(_) => Outcome::skip("rewriter panicked (C13)"),
            };
        }
        let (src, cfg, file) = case_parts(case);
        let classes = tags_of(case);
        let config = rw::make_config(&cfg.json);
        let reader = MemReader::default();
        let raw = match rw::rewrite_raw(&config, &src, &file, &reader) {
            Ok(Ok(r)) => r,
            Ok(Err(_)) => return Outcome::skip("rewriter returned an error"),
            Err(_) => return Outcome::skip("rewriter panicked (C13)"),
        };
        let a = analyze(&src, &cfg, &file);
        let rw::Outcome::Ok(v) = &a.outcome else { return Outcome::skip("second call did not return a result") };
        let status = v["metrics"]["status"].as_str().unwrap_or("");
        if status != raw.status {
            return Outcome::fail("status-unstable", format!("status {} from rewrite_js but metrics say {}", raw.status, status));
        }
        let content = v["content"].as_str().unwrap_or("");
        if raw.status == "notmodified" {
            if !raw.code.is_empty() || !raw.source_map.is_empty() || !raw.printed.is_empty() || !content.is_empty() {
                return Outcome::fail(
                    "notmodified-with-content",
                    format!("reported not modified but carries code ({} bytes), map ({} bytes), content ({} bytes)", raw.code.len(), raw.source_map.len(), content.len()),
                );
            }
            // no MUST site may exist in a not-modified input
            if let Ok(p) = &a.src {
                let sites = crate::analysis::input_sites(&p.tree, &cfg);
                if let Some(s) = sites.iter().find(|s| s.expect == Expect::Must) {
                    // C04's business, only counted here
                    let _ = s;
                }
            }
            // package level echo
            let mut nontrivial = case["tags"].as_array().map(|t| t.iter().any(|x| matches!(x.as_str(), Some("arrow-expr-body") | Some("opt-chain") | Some("literal-sum") | Some("delete") | Some("arrow-param-default")))).unwrap_or(false);
            if case["mode"] == json!(0) || nontrivial {
                nontrivial = true;
            }
            let odd = src.starts_with('\u{feff}') || src.contains('\r') || src.contains("var odd =") || src.contains("var long =");
            if std::env::var("VERIF_NO_NODE").is_err() && (odd || crate::engine::hash_str(&src) % 8 == 0) {
                // a second text of the same length for the same file name (also not modified): `//A` vs `//B` appended
                let req = json!({"cmd": "package", "op": "echo", "code": src, "file": file, "native": v, "config": cfg.json,
                                 "codeA": format!("{src}\n//A"), "codeB": format!("{src}\n//B")});
                match node::call(ctx, &req) {
                    Ok(r) => {
                        if let Some(e) = r.get("error") {
                            return Outcome::inconclusive(format!("package worker: {}", e.as_str().unwrap_or("").chars().take(80).collect::<String>()));
                        }
                        for k in ["cache", "nocache"] {
                            if r[k]["sameSeq"] == json!(false) {
                                return Outcome::fail("package-echo-sequence", format!("{k} rewriter: after rewrite(A, file) the call rewrite(B, file) (same length, other text) did not hand back B: {}", r[k]));
                            }
                            if r[k]["same"] != json!(true) {
                                return Outcome::fail("package-echo", format!("{k} rewriter did not hand back the caller's source byte for byte: {}", r[k]));
                            }
                        }
                    }
                    Err(e) => return Outcome::inconclusive(format!("node worker: {e}")),
                }
            }
            return Outcome::pass(nontrivial, classes);
        }
        // modified
        if raw.code.is_empty() {
            return Outcome::fail("modified-without-code", "reported modified but no code");
        }
        let Some((body, payload)) = split_trailer(content) else {
            return Outcome::fail("modified-without-trailer", "reported modified but the content does not end with an inline sourceMappingURL trailer");
        };
        if smap::decode_base64(&payload).and_then(|b| serde_json::from_slice::<Value>(&b).ok()).is_none() {
            return Outcome::fail("modified-without-trailer", "trailer payload is not base64 of JSON");
        }
        let parsed = match ast::parse(&body) {
            Ok(p) => p,
            Err(_) => return Outcome::skip("output unparsable (C08)"),
        };
        let norm = crate::erase::normalize(&parsed.tree);
        let prefix = cfg.prefix.clone().unwrap_or_default();
        let mut er = Eraser::new(&prefix);
        match er.erase_program(&norm) {
            Ok(_) => {}
            Err(e) => {
                if e.sig != "hook-namespace-left" && e.sig != "hook-shape" {
                    return Outcome::skip(format!("round trip failed: {}", e.sig));
                }
            }
        }
        if !er.prologue_found {
            return Outcome::fail("modified-without-prologue", "reported modified but the _ddiast prologue is missing");
        }
        let configured: Vec<&String> = cfg.all_dst.iter().collect();
        let good = er.hooks.iter().filter(|h| configured.iter().any(|d| Some(d.as_str()) == h["name"].as_str())).count();
        if good == 0 {
            return Outcome::fail("modified-without-hook", "reported modified but the output contains no call of a configured hook");
        }
        let _ = ty;
        // package level: a modified result is handed on as it is (code and embedded map), by both rewriters of the package
        let many = case["tags"].as_array().map(|t| t.iter().any(|x| x == "many-statements")).unwrap_or(false);
        if std::env::var("VERIF_NO_NODE").is_err() && (many || crate::engine::hash_str(&src) % 16 == 0) {
            let req = json!({"cmd": "package", "op": "passthrough", "code": src, "file": file, "native": v, "config": cfg.json});
            match node::call(ctx, &req) {
                Ok(r) => {
                    if let Some(e) = r.get("error") {
                        return Outcome::inconclusive(format!("package worker: {}", e.as_str().unwrap_or("").chars().take(80).collect::<String>()));
                    }
                    for k in ["cache", "nocache"] {
                        if r[k]["same"] != json!(true) {
                            return Outcome::fail("package-modified-content-altered", format!("{k} rewriter did not hand on the rewritten content (code and embedded map) as the native rewriter produced it: {}", r[k]));
                        }
                    }
                }
                Err(e) => return Outcome::inconclusive(format!("node worker: {e}")),
            }
        }
        Outcome::pass(false, classes)
    }
}

// ------------------------------------------------------------------------------------------ C16

pub struct C16;

fn outcome_key(o: &rw::Outcome, prefix_hint: Option<&str>) -> Value {
    // comparable projection: content, metrics, literals as a sorted set, error text
    let norm = |s: &str| -> String {
        match prefix_hint {
            Some(p) if !p.is_empty() => s.replace(&format!("__datadog_{p}_"), "__datadog_P_"),
            _ => s.to_string(),
        }
    };
    match o {
        rw::Outcome::Ok(v) => {
            let content = v["content"].as_str().unwrap_or("");
            let (body, map) = match split_trailer(content) {
                Some((b, payload)) => {
                    let m = smap::decode_base64(&payload).map(|b| String::from_utf8_lossy(&b).to_string()).unwrap_or(payload);
                    (b, m)
                }
                None => (content.to_string(), String::new()),
            };
            let mut lits: Vec<String> = vec![];
            if let Some(arr) = v["literalsResult"]["literals"].as_array() {
                for l in arr {
                    let mut locs: Vec<String> = l["locations"].as_array().map(|a| a.iter().map(|x| x.to_string()).collect()).unwrap_or_default();
                    locs.sort();
                    lits.push(format!("{}@{}", l["value"], locs.join(";")));
                }
            }
            lits.sort();
            let mut metrics = v["metrics"].clone();
            if let Some(d) = metrics.get_mut("propagationDebug") {
                if let Some(m) = d.as_object() {
                    let sorted: BTreeMap<String, Value> = m.iter().map(|(k, v)| (k.clone(), v.clone())).collect();
                    *d = json!(sorted);
                }
            }
            json!({"body": norm(&body), "map": norm(&map), "metrics": metrics, "literals": lits, "literalsFile": v["literalsResult"]["file"], "hasLiterals": !v["literalsResult"].is_null()})
        }
        rw::Outcome::Err(e) => json!({"err": norm(e)}),
        rw::Outcome::Panic(p) => json!({"panic": p}),
    }
}

/// external source maps served to every C16 call (two packages whose files carry the same relative reference)
fn c16_reader() -> MemReader {
    let mut r = MemReader::default();
    let map = |src: &str| format!(r#"{{"version":3,"sources":["{src}","../src/shared.ts"],"names":["nm"],"mappings":"AAAAA,IAAI,CCAA;ADAA,KCCA"}}"#).into_bytes();
    r.files.insert("/app/pkg-a/dist/index.js.map".into(), ReadOutcome::Bytes(map("../src/a.ts")));
    r.files.insert("/app/pkg-b/dist/index.js.map".into(), ReadOutcome::Bytes(map("../src/b.ts")));
    r
}

fn history_inputs(t: &mut Tape, cfg: &crate::cfggen::CfgInfo) -> Vec<(String, String)> {
    // a small pool of (src, file) of every outcome class
    let mut pool = vec![];
    let n = 2 + t.below(3);
    for i in 0..n {
        let o = opts_for(cfg, false);
        let p = gen_program_t(t, &o);
        pool.push((p.src, format!("/app/src/file{}.js", i)));
    }
    pool.push(("function broken( {".to_string(), "/app/src/broken.js".to_string()));
    pool.push(("var a = 'only literals' + 'here';\n".to_string(), "/app/src/plain.js".to_string()));
    for prefix in ["test", "abcdef", "x", "Z9_$"] {
        // (the refused files hold string literals of reportable length: nothing collected for them may show up later)
        pool.push((format!("var leftover = 'a literal of a refused file';\nfunction f(a, b) {{ const __datadog_{prefix}_0 = a; return a + b + `${{a}}`.trim() + 'another literal of that file'; }}\n"), format!("/app/src/clash_{}.js", prefix.len())));
    }
    // refused only by the per-block check (a mere reference, after temporaries have been handed out in that block)
    for prefix in ["test", "abcdef", ""] {
        pool.push((format!("function f(a, b) {{ return __datadog_{prefix}_7 + a() + b() + a.trim(b(), a()) + 'a literal behind a reserved name'; }}\n"), format!("/app/src/clashref_{}.js", prefix.len())));
        pool.push((format!("function f(a, b) {{ const k = a() + b() + `${{a()}}${{b()}}`; {{ label: {{ k.trim(__datadog_{prefix}_1); }} }} return k; }}\n"), format!("/app/src/clashnested_{}.js", prefix.len())));
    }
    // two reference comments attached to different tokens (different maps): which one is used must not depend on the call
    {
        let m1 = r#"{"version":3,"sources":["first.ts"],"names":[],"mappings":"AAAA;AACA;AACA"}"#;
        let m2 = r#"{"version":3,"sources":["second.ts"],"names":[],"mappings":"AAEA;AACA;AACA"}"#;
        pool.push((
            format!(
                "function f(a, b) {{ return a + b; }} //# sourceMappingURL=data:application/json;base64,{}\nvar k = 1;\n//# sourceMappingURL=data:application/json;base64,{}\n",
                smap::encode_base64(m1.as_bytes()),
                smap::encode_base64(m2.as_bytes())
            ),
            "/app/src/tworefs.js".to_string(),
        ));
    }
    // one literal value at a dozen places (the literals report is a set: nothing about it may depend on the call)
    pool.push((format!("function f(a) {{ return [{}].concat(a + a); }}\n", vec!["'content-type-header'"; 12].join(", ")), "/app/src/dozen.js".to_string()));
    // pairs of files of the same length whose operations sit at the same byte offsets: a literal-only sum in one, an
    // ordinary sum in the other (anything remembered per source position from an earlier call shows)
    pool.push(("function f(unit) { const size = 10 - 2 + unit; return size; }\n".to_string(), "/app/src/sum_a.js".to_string()));
    pool.push(("function f(unit) { const size = 10 + 2 + unit; return size; }\n".to_string(), "/app/src/sum_b.js".to_string()));
    pool.push(("function f(win) { const size = 'w' + 20 + 'px'; return size; }\n".to_string(), "/app/src/px_a.js".to_string()));
    pool.push(("function f(win) { const size = win * 20 + 'px'; return size; }\n".to_string(), "/app/src/px_b.js".to_string()));
    pool.push(("function f(unit) { const size = 10 - 2 + unit; return size; }\n".to_string(), "/app/src/sum_b.js".to_string()));
    // needs no temporary at all / exactly one: anything left over from an earlier call shows
    pool.push(("function f(a, b) { return a + b; }\n".to_string(), "/app/src/notemps.js".to_string()));
    pool.push(("function f(a, b) { { return a() + b; } }\n".to_string(), "/app/src/onetemp.js".to_string()));
    let _ = cfg;
    pool.push(("function f(a, b) { return a + b; }\n//# sourceMappingURL=missing.js.map\n".to_string(), "/app/src/mapped.js".to_string()));
    pool.push(("function f(a, b) { return a.trim() + b; }\n//# sourceMappingURL=data:application/json;base64,e30=\n".to_string(), "/app/src/inline.js".to_string()));
    // a bundle with several original sources (inline), and two packages with the same relative external reference
    let bundle = "function f(a, b) {\n  const x = a + b;\n  const y = `${a}${b}`;\n  return x.trim() + y;\n}\n";
    let m = r#"{"version":3,"sources":["one.ts","two.ts","three.ts","four.ts"],"names":["p","q"],"mappings":"AAAAA,SAAS;ACAT,QAAQC;ACAR,QAAQ;ACAR,OAAO;AAAA"}"#;
    pool.push((format!("{bundle}//# sourceMappingURL=data:application/json;base64,{}\n", smap::encode_base64(m.as_bytes())), "/app/src/bundle.js".to_string()));
    pool.push(("function f(a, b) { return a + b; }\n//# sourceMappingURL=index.js.map\n".to_string(), "/app/pkg-a/dist/index.js".to_string()));
    pool.push(("function f(a, b) { return a + b; }\n//# sourceMappingURL=index.js.map\n".to_string(), "/app/pkg-b/dist/index.js".to_string()));
    pool
}

impl Check for C16 {
    fn id(&self) -> &'static str {
        "C16"
    }
    fn max_tape(&self) -> usize {
        900
    }
    fn decode(&self, tape: &[u8], _stream: usize) -> Value {
        let mut t = Tape::new(tape);
        // the shape of the history first, the programs (which consume the rest of the tape) last
        let ncfg = 1 + t.below(3);
        let ncalls = 2 + t.below(12);
        let picks: Vec<(usize, u16)> = (0..ncalls).map(|_| (t.below(ncfg), t.u16())).collect();
        let mut cfgs = vec![];
        for i in 0..ncfg {
            let fixed = t.chance(170);
            let empty_prefix = t.chance(25);
            let mut c = gen_cfg(&mut t, &CfgOpts { fixed_prefix: fixed, rich: true });
            if empty_prefix {
                // an explicitly configured empty prefix is a prefix like any other (it is not "omitted")
                let mut j = c.json.clone();
                j["localVarPrefix"] = json!("");
                c = info_from_json(&j);
            }
            if i == 0 || t.flag() {
                // chaining matters for history dependence through source maps
                let mut j = c.json.clone();
                j["chainSourceMap"] = json!(true);
                c = info_from_json(&j);
            }
            cfgs.push(c);
        }
        if cfgs.len() >= 2 && t.chance(70) {
            // two rewriters that name the same hooks in another order and multiplicity
            let mut j = cfgs[0].json.clone();
            if let Some(list) = j["csiMethods"].as_array().cloned() {
                if list.len() >= 2 {
                    let mut l2: Vec<Value> = list.iter().rev().cloned().collect();
                    l2.push(list[list.len() - 1].clone());
                    j["csiMethods"] = Value::Array(l2);
                    cfgs[1] = info_from_json(&j);
                }
            }
        }
        let pool = history_inputs(&mut t, &cfgs[0]);
        let mut calls = vec![];
        for (r, pick) in picks {
            let i = (pick as usize * pool.len()) >> 16;
            calls.push(json!({"rw": r, "src": pool[i].0, "file": pool[i].1}));
        }
        // make sure there is an exact repeat separated by another call
        if calls.len() >= 3 {
            let first = calls[0].clone();
            calls.push(first);
        }
        json!({"configs": cfgs.iter().map(|c| c.json.clone()).collect::<Vec<_>>(), "calls": calls})
    }
    fn rule(&self) -> String {
        "stateful: histories of 2-15 rewrite calls over 1-3 rewriter instances (explicit or omitted prefix) on inputs of every outcome class (modified, not \
         modified, syntax error, cancelled, with source-map comments), with repeats interleaved; oracle: each call's (content, decoded map, metrics, set of \
         literals, error text) equals that of the same (config, source, file) executed first thing on a fresh rewriter in the same process and, sampled, in a \
         fresh process (modulo the random prefix when omitted); non-trivial = distinct history with a failing call before a successful one and an exact repeat \
         separated by a call for another file"
            .into()
    }
    fn assumptions(&self) -> Vec<String> {
        vec!["concurrent calls are not exercised: the statement quantifies over sequences and the shipped module is single threaded".into()]
    }
    fn eval(&self, case: &Value, _ctx: &mut Ctx) -> Outcome {
        // the whole history runs on a thread of its own: whatever thread-local state earlier cases left
        // behind on the worker thread cannot influence it (and a leak inside the history is reproducible)
        let case = case.clone();
        std::thread::Builder::new()
            .stack_size(256 << 20)
            .spawn(move || eval_history(&case))
            .expect("spawn")
            .join()
            .unwrap_or_else(|_| Outcome::inconclusive("history thread died"))
    }
}

fn eval_history(case: &Value) -> Outcome {
    {
        let cfg_jsons = case["configs"].as_array().cloned().unwrap_or_default();
        let infos: Vec<_> = cfg_jsons.iter().map(info_from_json).collect();
        let rewriters: Vec<_> = cfg_jsons.iter().map(rw::make_config).collect();
        let calls = case["calls"].as_array().cloned().unwrap_or_default();
        let mut seen_err_before_ok = false;
        let mut had_err = false;
        let mut repeat_sep = false;
        let mut history: Vec<(usize, String, String)> = vec![];
        let mut fresh_process_runs = 0;
        for (step, c) in calls.iter().enumerate() {
            let r = c["rw"].as_u64().unwrap_or(0) as usize % rewriters.len().max(1);
            let src = c["src"].as_str().unwrap_or("");
            let file = c["file"].as_str().unwrap_or("");
            let reader = c16_reader();
            let got = rw::rewrite(&rewriters[r], src, file, &reader);
            if let rw::Outcome::Panic(_) = got {
                return Outcome::skip("rewriter panicked (C13)");
            }
            match &got {
                rw::Outcome::Err(_) => had_err = true,
                rw::Outcome::Ok(_) => {
                    if had_err {
                        seen_err_before_ok = true
                    }
                }
                _ => {}
            }
            if let Some(pos) = history.iter().position(|h| h.0 == r && h.1 == src && h.2 == file) {
                if history[pos + 1..].iter().any(|h| h.2 != file) {
                    repeat_sep = true;
                }
            }
            history.push((r, src.to_string(), file.to_string()));
            // reference: fresh rewriter, first call, on a brand-new thread (no thread-local state of this history)
            let reference = {
                let cj = cfg_jsons[r].clone();
                let (s2, f2) = (src.to_string(), file.to_string());
                std::thread::Builder::new()
                    .stack_size(256 << 20)
                    .spawn(move || {
                        let fresh = rw::make_config(&cj);
                        rw::rewrite(&fresh, &s2, &f2, &c16_reader())
                    })
                    .expect("spawn")
                    .join()
                    .unwrap_or(rw::Outcome::Panic("reference thread died".into()))
            };
            let (pa, pb) = if infos[r].prefix.is_some() {
                (None, None)
            } else {
                (prefix_of(&got), prefix_of(&reference))
            };
            let ka = outcome_key(&got, pa.as_deref());
            let kb = outcome_key(&reference, pb.as_deref());
            if ka != kb {
                let d = crate::erase::first_diff(&ka, &kb, "").unwrap_or_default();
                return Outcome::fail("history-dependent", format!("call #{step} (rewriter {r}, file {file}) differs from the same call on a fresh rewriter: {d}"));
            }
            // sampled: the same triple in a fresh PROCESS (process-wide state)
            let h = crate::engine::hash_str(src) ^ (step as u64).wrapping_mul(0x9E37) ^ crate::engine::hash_value(&cfg_jsons[r]);
            let sample = if file.contains("clash") { h % 6 == 0 } else { h % 60 == 0 };
            if sample && infos[r].prefix.is_some() && std::env::var("VERIF_NO_ONESHOT").is_err() {
                match oneshot(&cfg_jsons[r], src, file) {
                    Ok(kc) => {
                        if ka != kc {
                            let d = crate::erase::first_diff(&ka, &kc, "").unwrap_or_default();
                            return Outcome::fail("process-history-dependent", format!("call #{step} (rewriter {r}, file {file}) differs from the same call in a fresh process: {d}"));
                        }
                        fresh_process_runs += 1;
                    }
                    Err(e) => return Outcome::inconclusive(format!("oneshot: {e}")),
                }
            }
        }
        Outcome::pass(seen_err_before_ok && repeat_sep, vec![format!("calls:{}", calls.len()), format!("rewriters:{}", rewriters.len()), format!("fresh-process-runs:{}", fresh_process_runs)])
    }
}

/// the comparable projection of one call executed in a brand-new process (`verif oneshot`)
fn oneshot(cfg: &Value, src: &str, file: &str) -> Result<Value, String> {
    use std::io::Write;
    let exe = std::env::current_exe().map_err(|e| e.to_string())?;
    let mut child = std::process::Command::new(exe)
        .arg("oneshot")
        .stdin(std::process::Stdio::piped())
        .stdout(std::process::Stdio::piped())
        .stderr(std::process::Stdio::null())
        .spawn()
        .map_err(|e| e.to_string())?;
    child.stdin.take().unwrap().write_all(json!({"cfg": cfg, "src": src, "file": file}).to_string().as_bytes()).map_err(|e| e.to_string())?;
    let out = child.wait_with_output().map_err(|e| e.to_string())?;
    serde_json::from_slice(&out.stdout).map_err(|e| format!("bad oneshot output: {e}"))
}

pub fn oneshot_main() -> i32 {
    use std::io::Read;
    let mut s = String::new();
    std::io::stdin().read_to_string(&mut s).ok();
    let Ok(v) = serde_json::from_str::<Value>(&s) else { return 2 };
    let info = info_from_json(&v["cfg"]);
    let out = std::thread::Builder::new()
        .stack_size(256 << 20)
        .spawn(move || {
            let c = rw::make_config(&v["cfg"]);
            let o = rw::rewrite(&c, v["src"].as_str().unwrap_or(""), v["file"].as_str().unwrap_or(""), &c16_reader());
            let p = if info.prefix.is_some() { None } else { prefix_of(&o) };
            outcome_key(&o, p.as_deref())
        })
        .expect("spawn")
        .join();
    match out {
        Ok(k) => {
            println!("{k}");
            0
        }
        Err(_) => 2,
    }
}

fn prefix_of(o: &rw::Outcome) -> Option<String> {
    o.content().and_then(crate::analysis::detect_prefix)
}

// ------------------------------------------------------------------------------------------ C13

pub struct C13;

const TOKENS: &[&str] = &[
    "?.", "+=", "`", "${", "}", "{", "(", ")", "[", "]", "+", "=>", "...", "'", "\"", "//# sourceMappingURL=x.map", "/*# sourceMappingURL=data:application/json;base64,AAAA*/", "\u{0}", "\u{feff}",
    "\u{2028}", "class", "async", "await", "yield", "super", "#p", "?.(", "?.[", "`${", "\\u{1F600}", "0b1", "1n", "/=/", "<!--", "-->", "import(", "new.target", "__datadog_test_0",
];

fn mutate(t: &mut Tape, src: &str) -> String {
    let mut chars: Vec<char> = src.chars().collect();
    let n = 1 + t.below(6);
    for _ in 0..n {
        if chars.is_empty() {
            break;
        }
        let pos = (t.u16() as usize * chars.len()) >> 16;
        match t.below(6) {
            0 => {
                let len = 1 + t.below(12);
                let end = (pos + len).min(chars.len());
                chars.drain(pos..end);
            }
            1 => {
                let tok: Vec<char> = t.pick(TOKENS).chars().collect();
                for (i, c) in tok.into_iter().enumerate() {
                    chars.insert(pos + i, c);
                }
            }
            2 => {
                let len = 1 + t.below(20);
                let end = (pos + len).min(chars.len());
                let dup: Vec<char> = chars[pos..end].to_vec();
                for (i, c) in dup.into_iter().enumerate() {
                    chars.insert(pos + i, c);
                }
            }
            3 => {
                let pos2 = (t.u16() as usize * chars.len()) >> 16;
                chars.swap(pos, pos2);
            }
            4 => {
                chars[pos] = match chars[pos] {
                    '(' => ')',
                    ')' => '(',
                    '{' => '}',
                    '}' => '{',
                    '[' => ']',
                    ']' => '[',
                    c => c,
                };
            }
            _ => {
                chars.truncate(pos);
            }
        }
    }
    chars.into_iter().collect()
}

fn random_text(t: &mut Tape) -> String {
    let n = t.below(200);
    let mut s = String::new();
    for _ in 0..n {
        match t.below(4) {
            0 => s.push_str(*t.pick(TOKENS)),
            1 => s.push((b'a' + t.below(26) as u8) as char),
            2 => s.push(*t.pick(&[' ', '\n', ';', ',', '.', '\t', '\r'])),
            _ => {
                let c = char::from_u32(t.u16() as u32).unwrap_or('\u{fffd}');
                s.push(c);
            }
        }
    }
    s
}

const FILE_NAMES: &[&str] = &[
    "/app/src/t.js", "", "/", "t.js", "dir/", "../x.js", "./a/../b.js", "/a/b/", "C:\\win\\x.js", "\u{0}.js", "/tmp/\u{1F600}/é.js", ".", "..", "//", "/a//b.js",
];

fn map_variants(t: &mut Tape) -> (String, Vec<(String, ReadOutcome)>, bool) {
    // returns (comment text to append, files served by the reader, parent_none)
    let good_map = r#"{"version":3,"sources":["orig.ts"],"names":["a"],"mappings":"AAAA,CAACA;AACD"}"#;
    let kinds = [
        std::io::ErrorKind::NotFound,
        std::io::ErrorKind::PermissionDenied,
        std::io::ErrorKind::InvalidData,
        std::io::ErrorKind::Other,
        std::io::ErrorKind::UnexpectedEof,
        std::io::ErrorKind::Interrupted,
    ];
    let b64 = |s: &str| smap::encode_base64(s.as_bytes());
    match t.below(19) {
        16 | 17 | 18 => {
            // an arbitrary (possibly malformed) URL
            const PARTS: &[&str] = &["%", "%2", "%zz", "%20", "é", "\u{1F600}", "..", "/", ":", "?", "#", " ", "a.js.map", "data:", "data:application/json;base64,", "file://", "\\", "%é", "x", "data:application/json,", "data:application/json;charset=utf-8,", "%7B%22version%22%3A3%2C%22mappings%22%3A%22AAAA%22%2C%22sources%22%3A%5B%22o.ts%22%5D%7D", "{\"version\":3", "%7", "%F0%9F", "%00"];
            let n = 1 + t.below(6);
            let mut url = String::new();
            for _ in 0..n {
                url.push_str(PARTS[t.below(PARTS.len() - 1)]);
            }
            (format!("\n//# sourceMappingURL={url}"), vec![], t.chance(40))
        }
        0 => (String::new(), vec![], false),
        1 => {
            let m = if t.flag() {
                good_map.to_string()
            } else {
                // repeated sources, sourcesContent, names, sourceRoot, 1-field segments
                [
                    r#"{"version":3,"sourceRoot":"root/","sources":["a.ts","b.ts","a.ts"],"sourcesContent":["//a","//b","//a again"],"names":["n","m"],"mappings":"AAAAA,C,CCAAC,EAAC;ACAD,CDCA;;ACCA"}"#,
                    r#"{"version":3,"file":"out.js","sources":["a.ts","a.ts"],"sourcesContent":["let a = b + c","let a = b + c"],"names":[],"mappings":"AAAA,EAAE,MAAM,CAAC,GAAG,CAAC,GAAG,CAAC"}"#,
                    r#"{"version":3,"sources":[null,"x.ts",null],"sourcesContent":[null,"//x",null],"names":[],"mappings":"AAAA,CCAA,CCAA"}"#,
                ][t.below(3)]
                    .to_string()
            };
            (format!("\n//# sourceMappingURL=data:application/json;base64,{}", b64(&m)), vec![], false)
        }
        2 => ("\n//# sourceMappingURL=ext.js.map".into(), vec![("ext.js.map".into(), ReadOutcome::Bytes(good_map.into()))], false),
        3 => ("\n//# sourceMappingURL=ext.js.map".into(), vec![], false),
        4 => ("\n//# sourceMappingURL=ext.js.map".into(), vec![("ext.js.map".into(), ReadOutcome::Fail(*t.pick(&kinds)))], false),
        5 => {
            if t.flag() {
                ("\n//# sourceMappingURL=data:application/json;base64,!!!notbase64".into(), vec![], false)
            } else {
                // map files in other encodings / with byte order marks, also cut in the middle of a code unit
                let json = br#"{"version":3,"sources":["o.ts"],"names":[],"mappings":"AAAA"}"#;
                let mut bytes: Vec<u8> = match t.below(4) {
                    0 => vec![0xFF, 0xFE],
                    1 => vec![0xFE, 0xFF],
                    2 => vec![0xEF, 0xBB, 0xBF],
                    _ => vec![0xFF, 0xFE, 0x00, 0x00],
                };
                let le = bytes[0] == 0xFF;
                if bytes.len() == 3 {
                    bytes.extend_from_slice(json);
                } else {
                    for b in json.iter() {
                        if le { bytes.push(*b); bytes.push(0); } else { bytes.push(0); bytes.push(*b); }
                    }
                }
                let cut = t.below(4);
                for _ in 0..cut {
                    bytes.pop();
                }
                ("\n//# sourceMappingURL=ext.js.map".into(), vec![("ext.js.map".into(), ReadOutcome::Bytes(bytes))], false)
            }
        }
        6 => (format!("\n//# sourceMappingURL=data:application/json;base64,{}", b64("{not json")), vec![], false),
        7 => (
            format!("\n//# sourceMappingURL=data:application/json;base64,{}", b64(r#"{"version":3,"sections":[{"offset":{"line":0,"column":0},"map":{"version":3,"sources":["a"],"names":[],"mappings":"AAAA"}}]}"#)),
            vec![],
            false,
        ),
        8 => ("\n//# sourceMappingURL=ext.js.map".into(), vec![("ext.js.map".into(), ReadOutcome::Bytes(vec![0xff, 0xfe, 0x00, 0x80]))], false),
        9 => {
            // huge map
            let mut m = String::from(r#"{"version":3,"sources":["o.ts"],"names":[],"mappings":""#);
            for _ in 0..200_000 {
                m.push_str("AAAA,");
            }
            m.push_str(r#"AAAA"}"#);
            ("\n//# sourceMappingURL=ext.js.map".into(), vec![("ext.js.map".into(), ReadOutcome::Bytes(m.into_bytes()))], false)
        }
        10 => (
            format!("\n//# sourceMappingURL=data:application/json;base64,{}", b64(r#"{"version":3,"sources":["o.ts"],"names":[],"mappings":"AAAA,gggggggggggggggggggggggggggggggggB;;;;ACzzzzzzzzzzzD"}"#)),
            vec![],
            false,
        ),
        11 => (
            format!("\n//# sourceMappingURL=data:application/json;base64,{}", b64(r#"{"version":3,"sources":[],"names":[],"mappings":"AAAA,EEEE,IAAII"}"#)),
            vec![],
            false,
        ),
        12 => ("\n//# sourceMappingURL=ext.js.map".into(), vec![], true),
        13 => ("\n//# sourceMappingURL=/abs/ext.js.map".into(), vec![("/abs/ext.js.map".into(), ReadOutcome::Bytes(good_map.into()))], true),
        14 => ("\n//# sourceMappingURL=".into(), vec![], false),
        _ => ("\n/*# sourceMappingURL=ext.js.map */\n//# sourceMappingURL=data:,".into(), vec![("ext.js.map".into(), ReadOutcome::Bytes(b"{}".to_vec()))], false),
    }
}

impl Check for C13 {
    fn id(&self) -> &'static str {
        "C13"
    }
    fn decode(&self, tape: &[u8], _stream: usize) -> Value {
        let mut t = Tape::new(tape);
        // small choices first
        let (comment, files, parent_none) = map_variants(&mut t);
        let file = *t.pick(FILE_NAMES);
        let fixed = t.flag();
        let plant_reserved = t.chance(40);
        let cfg = gen_cfg(&mut t, &CfgOpts { fixed_prefix: fixed, rich: true });
        // one configuration in ten names a replacement that is not an identifier (nothing validates `dst`)
        let mut cfg = cfg;
        if t.chance(25) {
            let bad = *t.pick(&["my-trim", "1x", "a.b", "", "x y", "class", "__proto__", "\u{e9}", "a: 'a string literal longer than ten', plusOperator", "noop }; throw 1; ({ x", "`", "/*"]);
            let mut j = cfg.json.clone();
            if let Some(ms) = j["csiMethods"].as_array_mut() {
                if !ms.is_empty() {
                    let i = t.below(ms.len());
                    ms[i]["dst"] = json!(bad);
                }
            }
            cfg = crate::cfggen::info_from_json(&j);
        }
        let kind = t.weighted(&[3, 4, 2]);
        let src = match kind {
            0 => {
                let o = opts_for(&cfg, false);
                gen_program_t(&mut t, &o).src
            }
            1 => {
                let mut o = opts_for(&cfg, false);
                o.max_stmts = 3;
                let p = gen_program_t(&mut t, &o).src;
                mutate(&mut t, &p)
            }
            _ => random_text(&mut t),
        };
        // constructs with special handling somewhere in the pipeline, in unusual arities
        const SNIPPETS: &[&str] = &[
            "new RegExp();", "new RegExp;", "require();", "new RegExp(...a);", "require(...a);", "RegExp();", "new RegExp(a, 'a flags literal longer than ten');",
            "String.prototype.concat.call();", "String.prototype.concat.apply();", "x?.();", "a?.concat?.()?.trim?.();", "a.concat.call(...b);", "`${a}`.concat();",
            "({}).substring.apply(a, [,]);", "aloneMethod();", "aloneMethod(...a);", "label: { break label; }", "delete a?.b.c;", "new.target;", "import.meta;",
            // long identifiers with a multi-byte character at every byte offset from 8 to 31 (anything that cuts names at a
            // computed byte offset, e.g. at the length of the reserved prefix, must respect character boundaries)
            "var vvvvvvvñq = 1; var vvvvvvvvñq = 1; var vvvvvvvvvñq = 1; var vvvvvvvvvvñq = 1; var vvvvvvvvvvvñq = 1; var vvvvvvvvvvvvñq = 1; var vvvvvvvvvvvvvñq = 1; var vvvvvvvvvvvvvvñq = 1; var vvvvvvvvvvvvvvvñq = 1; var vvvvvvvvvvvvvvvvñq = 1; var vvvvvvvvvvvvvvvvvñq = 1; var vvvvvvvvvvvvvvvvvvñq = 1; var vvvvvvvvvvvvvvvvvvvñq = 1; var vvvvvvvvvvvvvvvvvvvvñq = 1; var vvvvvvvvvvvvvvvvvvvvvñq = 1; var vvvvvvvvvvvvvvvvvvvvvvñq = 1; var vvvvvvvvvvvvvvvvvvvvvvvñq = 1; var vvvvvvvvvvvvvvvvvvvvvvvvñq = 1; var vvvvvvvvvvvvvvvvvvvvvvvvvñq = 1; var vvvvvvvvvvvvvvvvvvvvvvvvvvñq = 1; var vvvvvvvvvvvvvvvvvvvvvvvvvvvñq = 1; var vvvvvvvvvvvvvvvvvvvvvvvvvvvvñq = 1; var vvvvvvvvvvvvvvvvvvvvvvvvvvvvvñq = 1; var vvvvvvvvvvvvvvvvvvvvvvvvvvvvvvñq = 1;",
            "var wwwwwww日z = 1; var wwwwwwww日z = 1; var wwwwwwwww日z = 1; var wwwwwwwwww日z = 1; var wwwwwwwwwww日z = 1; var wwwwwwwwwwww日z = 1; var wwwwwwwwwwwww日z = 1; var wwwwwwwwwwwwww日z = 1; var wwwwwwwwwwwwwww日z = 1; var wwwwwwwwwwwwwwww日z = 1; var wwwwwwwwwwwwwwwww日z = 1; var wwwwwwwwwwwwwwwwww日z = 1; var wwwwwwwwwwwwwwwwwww日z = 1; var wwwwwwwwwwwwwwwwwwww日z = 1; var wwwwwwwwwwwwwwwwwwwww日z = 1; var wwwwwwwwwwwwwwwwwwwwww日z = 1; var wwwwwwwwwwwwwwwwwwwwwww日z = 1; var wwwwwwwwwwwwwwwwwwwwwwww日z = 1; var wwwwwwwwwwwwwwwwwwwwwwwww日z = 1; var wwwwwwwwwwwwwwwwwwwwwwwwww日z = 1; var wwwwwwwwwwwwwwwwwwwwwwwwwww日z = 1; var wwwwwwwwwwwwwwwwwwwwwwwwwwww日z = 1; var wwwwwwwwwwwwwwwwwwwwwwwwwwwww日z = 1; var wwwwwwwwwwwwwwwwwwwwwwwwwwwwww日z = 1;",
            // escapes that are only legal in tagged templates (no cooked value), with and without substitutions
            "String.raw`C:\\users\\bin`;", "h`\\xerox ${a} \\u{110000}`;", "h`\\unicode and a text that is longer than ten`;", "a.concat(h`\\01`);",
        ];
        let src = if t.chance(70) {
            let sn = *t.pick(SNIPPETS);
            src.replacen("let x = a", &format!("{sn} let x = a"), 1)
        } else {
            src
        };
        let src = if plant_reserved {
            // a user identifier with the reserved prefix: the rewrite must be refused, not panic
            let p = cfg.prefix.clone().unwrap_or_else(|| "test".into());
            src.replacen("let x = a", &format!("let __datadog_{p}_0 = a, x = a"), 1)
        } else {
            src
        };
        let src = if crate::known::avoid_flags().bom_midfile && src.chars().skip(1).any(|c| c == '\u{feff}') {
            // known finding: excluded by construction (only a leading BOM is kept)
            let mut it = src.chars();
            let first: String = it.next().map(|c| c.to_string()).unwrap_or_default();
            format!("{first}{}", it.filter(|c| *c != '\u{feff}').collect::<String>())
        } else {
            src
        };
        let dir = std::path::Path::new(file).parent().map(|p| p.to_string_lossy().to_string()).unwrap_or_default();
        let served: Vec<Value> = files
            .iter()
            .map(|(name, out)| {
                let path = if name.starts_with('/') { name.clone() } else { std::path::Path::new(&dir).join(name).to_string_lossy().to_string() };
                match out {
                    ReadOutcome::Bytes(b) => json!({"path": path, "b64": smap::encode_base64(b)}),
                    ReadOutcome::Fail(k) => json!({"path": path, "fail": format!("{:?}", k)}),
                }
            })
            .collect();
        let mut case = json!({"src": format!("{src}{comment}"), "cfg": cfg.json, "file": file, "files": served, "parentNone": parent_none, "kind": kind});
        if tape.len() > 2 && tape[1] % 40 == 0 {
            case["burst"] = json!(20 + (tape[2] % 30) as u64);
        }
        case
    }
    fn rule(&self) -> String {
        "inputs: generated programs, token-level mutations of them (delete / duplicate / swap / bracket flips / injected tokens such as ?. += ` and \
         sourceMappingURL comments), random text; x 15 file names (empty, '/', no directory, trailing slash, ..) x every configuration x 16 source-map reference \
         variants served by a fault-injecting FileReader (missing, every io::ErrorKind, invalid base64/JSON/UTF-8, index map, huge map, VLQ overflow, bad indices, \
         parent() = None); oracle: under catch_unwind the call returns Ok(result) or Err(non-empty diagnostic), never panics, and finishes within the watchdog; \
         non-trivial = distinct input, counted per outcome class (Ok modified / Ok not modified / Err syntax / Err cancelled / reader-fault variant)"
            .into()
    }
    fn assumptions(&self) -> Vec<String> {
        vec![
            "decided on the shipped profile (no debug assertions, no overflow checks); a second build with debug assertions and overflow checks on runs the same plans as a side run (coverage.second_build), where assertions inside the dependency's parser are out of scope".into(),
            "inputs capped at 16 KiB and nesting kept small: exhaustion by pathological depth is out of scope; each call runs on a 512 MiB stack".into(),
            "a call slower than 20 s is reported as inconclusive, never as a violation".into(),
        ]
    }
    fn eval(&self, case: &Value, _ctx: &mut Ctx) -> Outcome {
        eval_totality(case)
    }
}

/// C13 case from raw text plus four selector bytes (file name, configuration, reference variant): used by the raw-text fuzz target
pub fn text_case(sel: &[u8], text: &str) -> Value {
    let mut t = Tape::new(sel);
    let file = *t.pick(FILE_NAMES);
    let cfg = match t.below(4) {
        0 => json!({"localVarPrefix": "test", "csiMethods": [{"src": "plusOperator", "operator": true}, {"src": "tplOperator", "operator": true}, {"src": "substring"}, {"src": "trim"}, {"src": "concat"}, {"src": "replace"}, {"src": "aloneMethod", "allowedWithoutCallee": true}]}),
        1 => json!({"chainSourceMap": true, "comments": true, "literals": true, "telemetryVerbosity": "DEBUG", "csiMethods": [{"src": "plusOperator", "operator": true}, {"src": "slice"}, {"src": "join", "dst": "x"}]}),
        2 => json!({"csiMethods": []}),
        _ => json!({"localVarPrefix": "x", "comments": true, "csiMethods": [{"src": "tplOperator", "operator": true}, {"src": "trim"}]}),
    };
    let (comment, files, parent_none) = map_variants(&mut t);
    let dir = std::path::Path::new(file).parent().map(|p| p.to_string_lossy().to_string()).unwrap_or_default();
    let served: Vec<Value> = files
        .iter()
        .map(|(name, out)| {
            let path = if name.starts_with('/') { name.clone() } else { std::path::Path::new(&dir).join(name).to_string_lossy().to_string() };
            match out {
                ReadOutcome::Bytes(b) => json!({"path": path, "b64": smap::encode_base64(b)}),
                ReadOutcome::Fail(k) => json!({"path": path, "fail": format!("{:?}", k)}),
            }
        })
        .collect();
    let mut src = format!("{text}{comment}");
    if crate::known::avoid_flags().bom_midfile {
        let mut it = src.chars();
        let first: String = it.next().map(|c| c.to_string()).unwrap_or_default();
        src = format!("{first}{}", it.filter(|c| *c != '\u{feff}').collect::<String>());
    }
    json!({"src": src, "cfg": cfg, "file": file, "files": served, "parentNone": parent_none, "kind": 3})
}

pub fn reader_from_case(case: &Value) -> MemReader {
    let mut reader = MemReader::default();
    reader.parent_none = case["parentNone"] == json!(true);
    if let Some(files) = case["files"].as_array() {
        for f in files {
            let path = f["path"].as_str().unwrap_or("").to_string();
            if let Some(b) = f["b64"].as_str() {
                reader.files.insert(path, ReadOutcome::Bytes(smap::decode_base64(b).unwrap_or_default()));
            } else {
                let kind = match f["fail"].as_str().unwrap_or("") {
                    "PermissionDenied" => std::io::ErrorKind::PermissionDenied,
                    "InvalidData" => std::io::ErrorKind::InvalidData,
                    "UnexpectedEof" => std::io::ErrorKind::UnexpectedEof,
                    "Interrupted" => std::io::ErrorKind::Interrupted,
                    "NotFound" => std::io::ErrorKind::NotFound,
                    _ => std::io::ErrorKind::Other,
                };
                reader.files.insert(path, ReadOutcome::Fail(kind));
            }
        }
    }
    reader
}

pub fn eval_totality(case: &Value) -> Outcome {
    let (src, cfg, file) = case_parts(case);
    if src.len() > 1 << 20 {
        return Outcome::skip("input too large");
    }
    // the call runs on a thread of its own with a watchdog: a call that does not return (loop, self-deadlock)
    // must not hang the check. A watchdog hit is reported as inconclusive (exit 2), never as a violation.
    let (tx, rx) = std::sync::mpsc::channel();
    let case2 = case.clone();
    let (src2, file2, cfg_json) = (src.clone(), file.clone(), cfg.json.clone());
    let spawned = std::thread::Builder::new().stack_size(256 << 20).spawn(move || {
        let reader = reader_from_case(&case2);
        let config = rw::make_config(&cfg_json);
        // `burst: n`: the call comes after n other calls on the same thread, each for a file with an external map of
        // its own (a long-running worker): whatever the rewriter keeps per thread has seen n distinct maps by then
        if let Some(n) = case2["burst"].as_u64() {
            let burst_cfg = rw::make_config(&json!({"localVarPrefix": "test", "chainSourceMap": true, "csiMethods": [{"src": "plusOperator", "operator": true}, {"src": "trim"}]}));
            for i in 0..n {
                let mut r = MemReader::default();
                let map = format!(r#"{{"version":3,"sources":["orig{i}.ts"],"names":["n{i}"],"mappings":"AAAAA,CAACA;AACA"}}"#);
                r.files.insert(format!("/app/burst/chunk-{i}.js.map"), ReadOutcome::Bytes(map.into_bytes()));
                let code = format!("function f{i}(a, b) {{ return a + b.trim(); }}\n//# sourceMappingURL=chunk-{i}.js.map\n");
                if let rw::Outcome::Panic(p) = rw::rewrite(&burst_cfg, &code, &format!("/app/burst/chunk-{i}.js"), &r) {
                    let _ = tx.send(rw::Outcome::Panic(format!("call {} of a sequence of calls on one thread (files with distinct external maps): {p}", i + 1)));
                    return;
                }
            }
        }
        let out = rw::rewrite(&config, &src2, &file2, &reader);
        let _ = tx.send(out);
    });
    let Ok(handle) = spawned else {
        return Outcome::inconclusive("cannot spawn a thread");
    };
    let limit = std::env::var("VERIF_CALL_TIMEOUT_SECS").ok().and_then(|s| s.parse().ok()).unwrap_or(20u64);
    let out = match rx.recv_timeout(std::time::Duration::from_secs(limit)) {
        Ok(o) => {
            // joined, never detached: glibc's pthread_detach can touch the thread's control block after the exiting thread
            // has unmapped its (large) stack - seen once as a segfault of the harness itself
            let _ = handle.join();
            o
        }
        Err(_) => {
            // the call does not return: its thread is abandoned (neither joined nor detached)
            std::mem::forget(handle);
            let dir = std::env::var("VERIF_FOUND_DIR").unwrap_or_else(|_| format!("{}/replays/found", crate::engine::verif_root()));
            let _ = std::fs::create_dir_all(&dir);
            let path = format!("{dir}/C13-watchdog-{:016x}.json", crate::engine::hash_value(case));
            let _ = std::fs::write(&path, serde_json::to_string_pretty(&json!({"property": "C13", "signature": "watchdog", "case": case})).unwrap());
            println!("WATCHDOG: a rewrite call did not return within {limit} s; input saved to {path}");
            return Outcome::inconclusive("watchdog: call did not return");
        }
    };
    let class = match &out {
        rw::Outcome::Ok(v) => format!("ok:{}", v["metrics"]["status"].as_str().unwrap_or("?")),
        rw::Outcome::Err(e) => {
            if e.is_empty() {
                return Outcome::fail("empty-diagnostic", "error value without diagnostic");
            }
            if e.contains("Variable name duplicated") {
                "err:cancelled".to_string()
            } else {
                "err:syntax".to_string()
            }
        }
        rw::Outcome::Panic(p) => {
            let loc = p.rsplit(" @ ").next().unwrap_or("").to_string();
            let short: String = loc.rsplit('/').next().unwrap_or("").to_string();
            // second build (debug assertions on): the input text goes to the dependency's parser verbatim, so an
            // assertion inside the parser is a function of the text alone (malformed inputs trip several of its
            // debug_assert!s). That build's scope is the rewriter's own code and what it hands to the printer and
            // the source-map builder: parser-internal assertions are counted, not reported.
            if std::env::var("VERIF_BUILD_FLAVOUR").is_ok() && loc.contains("/swc_ecma_parser-") {
                return Outcome::skip("debug assertion inside the dependency's parser (out of scope of the second build)");
            }
            return Outcome::fail(format!("panic:{short}"), format!("rewrite panicked: {p}"));
        }
    };
    let variant = if case["files"].as_array().map(|a| !a.is_empty()).unwrap_or(false) || src.contains("sourceMappingURL") { "map-ref" } else { "plain" };
    Outcome::pass(true, vec![class, format!("ref:{variant}"), format!("kind:{}", case["kind"])])
}

/// `_ddiast.<name>(..)` call expressions anywhere in a tree (the prologue only assigns to `_ddiast`, it never calls it)
fn count_hook_call_sites(v: &Value) -> u64 {
    match v {
        Value::Object(m) => {
            let mut n = 0;
            if m.get("type").and_then(|t| t.as_str()) == Some("CallExpression") {
                let callee = &m["callee"];
                if callee["type"] == json!("MemberExpression") && callee["object"]["type"] == json!("Identifier") && callee["object"]["value"] == json!("_ddiast") {
                    n += 1;
                }
            }
            for (_, x) in m {
                n += count_hook_call_sites(x);
            }
            n
        }
        Value::Array(a) => a.iter().map(count_hook_call_sites).sum(),
        _ => 0,
    }
}

// ------------------------------------------------------------------------------------------ C08

pub struct C08;

impl Check for C08 {
    fn id(&self) -> &'static str {
        "C08"
    }
    fn decode(&self, tape: &[u8], _stream: usize) -> Value {
        // comments printing on/off matters here; a quarter of the cases also mention reserved-prefix names
        // (an accepted file whose output re-declares such a name is rejected by V8, not by swc)
        let flip = tape.first().copied().unwrap_or(0) & 1 == 1;
        let reserved = tape.get(1).copied().unwrap_or(0) & 3 == 3;
        if !reserved {
            let mut v = decode_prog_case(tape, true, true, true);
            if flip {
                v["cfg"]["comments"] = json!(true);
            }
            // one case in eight: chaining on and an original map of its own (also degenerate ones: no mappings at all, a
            // first mapping beyond the end of the code) - the trailer has to be in place whatever the chain yields
            // one case in sixteen: legal (for Node) but unusual statements - whatever the rewriter makes of them (refusal
            // included), an accepted file must come out valid
            let sel4 = tape.get(4).copied().unwrap_or(0);
            if sel4 & 15 == 15 {
                const ODD: &[&str] = &[
                    "var \\u0061sync = [a]; for (\\u0061sync of [a, b]) { y += \\u0061sync; }",
                    "if (a) function legacyFn() { return a + b; }",
                    "var l\\u0065t = a; l\\u0065t += b;",
                    "lbl: function labelled() { return a + b; }",
                    "var yi\\u0065ld = a + b;",
                    "for (var i9 = 0 in {}) { y += i9; }",
                    "var let = [a]; (let[0]) += b; (let[0]) += b + a;",
                    "var yield = {p: a}; (yield.p) += b;",
                ];
                let odd = ODD[((sel4 >> 4) as usize) % ODD.len()];
                let src = v["src"].as_str().unwrap_or("").to_string();
                v["src"] = json!(src.replacen("let x = a", &format!("{odd} let x = a"), 1));
            }
            // one sloppy script in sixteen: a legacy decimal literal with a leading zero as object of a member access
            let sel3 = tape.get(3).copied().unwrap_or(0);
            if sel3 & 15 == 15 && !crate::known::avoid_flags().legacy_decimal_member {
                let src = v["src"].as_str().unwrap_or("").to_string();
                if !src.contains("use strict") && !src.contains("export ") && !src.contains("import ") && !src.contains("class ") {
                    v["src"] = json!(src.replacen("let x = a", "var legacy = 08 .toString() + 09.5.toFixed(1); let x = a", 1));
                }
            }
            let sel = tape.get(2).copied().unwrap_or(0);
            if sel & 7 == 7 {
                let maps = [
                    r#"{"version":3,"sources":["orig.ts"],"names":[],"mappings":""}"#,
                    r#"{"version":3,"sources":["orig.ts"],"names":[],"mappings":";;;;;;;;;;;;;;;;;;;;;;;;;;;;;;;;;;;;;;;;;;;;;;;;;;;;;;;;;;;;;;;;;;;;;;;;;;;;;;;;;;;;;;;;;;;;;;;;;;;;;;;;;;;;;;;;;;;;;;;;;;;;;;;;;;;;;;;;;;;;;;;;;;;;;;;;;;;;;;;;;;;;;;;;;;;;;;;;;;;;;;;;;;;;;;;;;;;;;;AAAA"}"#,
                    r#"{"version":3,"sources":["orig.ts"],"names":["n"],"mappings":"AAAAA;AACA;AACA;AACA"}"#,
                    r#"{"version":3,"sources":[],"names":[],"mappings":"A"}"#,
                ];
                let m = maps[((sel >> 3) & 3) as usize];
                v["cfg"]["chainSourceMap"] = json!(true);
                let src = v["src"].as_str().unwrap_or("").to_string();
                let nl = if src.ends_with('\n') { "" } else { "\n" };
                v["src"] = json!(format!("{src}{nl}//# sourceMappingURL=data:application/json;base64,{}\n", smap::encode_base64(m.as_bytes())));
                if let Some(t) = v["tags"].as_array_mut() {
                    t.push(json!("chained-original-map"));
                }
            }
            return v;
        }
        let mut t = Tape::new(&tape[2.min(tape.len())..]);
        let cfg = gen_cfg(&mut t, &CfgOpts { fixed_prefix: true, rich: true });
        let mut o = opts_for(&cfg, false);
        o.reserved_prefix = cfg.prefix.clone();
        let p = gen_program_t(&mut t, &o);
        let tags: Vec<&str> = p.tags.iter().copied().collect();
        let mut j = cfg.json.clone();
        if flip {
            j["comments"] = json!(true);
        }
        json!({"src": p.src, "cfg": j, "file": "/app/src/gen.js", "tags": tags})
    }
    fn rule(&self) -> String {
        "generated programs x configs (comments on and off), corpus files; precondition: the rewriter returned modified and Node itself compiles the input \
         (vm.compileFunction with the CommonJS parameters for scripts, vm.SourceTextModule for modules); oracle: the content is accepted by the rewriter's own \
         parser (same options) with the same kind (Script/Module), Node compiles it the same way, and the last line is an inline base64 JSON sourceMappingURL \
         trailer; non-trivial = distinct modified case with a hook inside an arrow body, yield/await operand, class member, label, loop head or template"
            .into()
    }
    fn eval(&self, case: &Value, ctx: &mut Ctx) -> Outcome {
        let (src, cfg, file) = case_parts(case);
        let classes = tags_of(case);
        let out = rw::rewrite_simple(&cfg.json, &src, &file);
        let content = match &out {
            rw::Outcome::Ok(v) if v["metrics"]["status"] == json!("modified") => v["content"].as_str().unwrap_or("").to_string(),
            rw::Outcome::Ok(_) => return Outcome::pass(false, vec!["status:notmodified".into()]),
            rw::Outcome::Err(_) => return Outcome::skip("rewriter returned an error"),
            rw::Outcome::Panic(_) => return Outcome::skip("rewriter panicked (C13)"),
        };
        // the harness' own (strict) parse of the input gives the kind; an input that it rejects but the rewriter accepted
        // (and Node accepts) is still in scope: the kind is then the one Node accepts the input as
        let src_parsed = ast::parse(&src).ok();
        // V8 on the input (precondition) and on the output
        let kinds: Vec<bool> = match &src_parsed {
            Some(p) => vec![p.is_module],
            None => vec![false, true],
        };
        let mut items = vec![];
        for k in &kinds {
            items.push(json!({"code": src, "module": k}));
            items.push(json!({"code": content, "module": k}));
        }
        let req = json!({"cmd": "compileBatch", "items": items});
        let resp = match node::call(ctx, &req) {
            Ok(r) => r,
            Err(e) => return Outcome::inconclusive(format!("node worker: {e}")),
        };
        let all = resp["results"].as_array().cloned().unwrap_or_default();
        if all.len() != 2 * kinds.len() {
            return Outcome::inconclusive("node worker: bad compile response");
        }
        let Some(ki) = (0..kinds.len()).find(|i| all[2 * i]["ok"] == json!(true)) else {
            return Outcome::skip("Node rejects the input");
        };
        let r = vec![all[2 * ki].clone(), all[2 * ki + 1].clone()];
        let input_is_module = kinds[ki];
        let Some((body, payload)) = split_trailer(&content) else {
            return Outcome::fail("trailer-missing", "the content does not end with an inline sourceMappingURL trailer line");
        };
        match smap::decode_base64(&payload).and_then(|b| serde_json::from_slice::<Value>(&b).ok()) {
            Some(v) if v.is_object() => {}
            _ => return Outcome::fail("trailer-invalid", "trailer payload is not base64 of a JSON object"),
        }
        match ast::parse(&body) {
            // (an input the strict parser rejects may contain a construct that the output legitimately still contains)
            Err(_) if src_parsed.is_none() => {}
            Err(e) => {
                // known finding: `08 .toString()` (legacy decimal literal with a leading zero) is printed as `08.toString()`
                let legacy = src.contains("var legacy = 08 .");
                return Outcome::fail(if legacy { "output-unparsable:legacy-decimal-member" } else { "output-unparsable" }, format!("the rewriter's own parser rejects the output: {e}"));
            }
            Ok(p) => {
                if src_parsed.is_some() && p.is_module != input_is_module {
                    return Outcome::fail("kind-changed", format!("input is_module={} output is_module={}", input_is_module, p.is_module));
                }
            }
        }
        if r[1]["ok"] != json!(true) {
            return Outcome::fail("output-rejected-by-v8", format!("Node rejects the output: {}", r[1]["error"]));
        }
        let nt = case["tags"].as_array().map(|t| t.iter().any(|x| matches!(x.as_str(), Some("arrow-expr-body") | Some("yield") | Some("await") | Some("class") | Some("label") | Some("for") | Some("template")))).unwrap_or(false);
        Outcome::pass(nt, classes)
    }
}

// ------------------------------------------------------------------------------------------ C07 (static)

pub struct C07Static;

impl Check for C07Static {
    fn id(&self) -> &'static str {
        "C07"
    }
    fn decode(&self, tape: &[u8], _stream: usize) -> Value {
        let mut t = Tape::new(tape);
        let cfg = gen_cfg(&mut t, &CfgOpts { fixed_prefix: true, rich: true });
        let mut o = opts_for(&cfg, false);
        o.allow_module = true;
        o.focus_strictness = true;
        // (layout noise: CR LF files among others - a line continuation inside a directive then holds a CR)
        o.layout_noise = t.flag();
        let stale = t.chance(6);
        let p = gen_program_t(&mut t, &o);
        let mut tags: Vec<&str> = p.tags.iter().copied().collect();
        let mut src = p.src;
        if stale && !p.module && !src.starts_with("#!") {
            // a file that was rewritten by an older release: it starts with that release's prologue, and the strings
            // behind it are NOT directives (they follow a statement)
            tags.push("stale-prologue-then-strings");
            src = format!(";\nif (typeof _ddiast === 'undefined') (function(globals){{ const noop = (res) => res; globals._ddiast = globals._ddiast || {{ plusOperator: noop }}; }}((1,eval)('this')));\n'use foo';\n'use strict';\n{src}");
        }
        json!({"src": src, "cfg": cfg.json, "file": "/app/src/gen.js", "tags": tags})
    }
    fn rule(&self) -> String {
        "programs and function-likes with 0-3 leading directives in any order / quote style, look-alikes, script and module; static oracle: after the \
         round trip every directive prologue is unchanged (tree equality) and every injected `let` and the file prologue sit exactly after the whole directive \
         prologue of their block (index == number of leading un-parenthesised string-literal statements); dynamic oracle: differential execution with \
         strictness probes (this of a plain call, assignment to an undeclared name, arguments aliasing, write to a frozen property); \
         non-trivial = distinct case with >= 1 scope holding >= 1 directive and an injected declaration (or the file prologue) in that same scope"
            .into()
    }
    fn eval(&self, case: &Value, _ctx: &mut Ctx) -> Outcome {
        let a = match prepare(case) {
            Pre::Ready(a) => a,
            Pre::Done(o) => return o,
        };
        let classes = tags_of(case);
        if !a.outcome.is_modified() {
            return Outcome::pass(false, classes);
        }
        let Some(Ok(_)) = &a.out else { return Outcome::skip("output unparsable (C08)") };
        // independent of the round trip: the directive prologues of the program and of every function-like body,
        // in pre-order, must be the same lists in input and output (injected prologue / `let` skipped)
        {
            let inp = crate::erase::normalize(&a.src.as_ref().unwrap().tree);
            let outp = crate::erase::normalize(&a.out.as_ref().unwrap().as_ref().unwrap().tree);
            let prefix = a.prefix.clone().unwrap_or_default();
            let mut li = vec![];
            let mut lo = vec![];
            collect_prologues(&inp, &prefix, &mut li);
            collect_prologues(&outp, &prefix, &mut lo);
            // blocks without directives are ignored (the output has extra ones: concise arrow bodies become blocks)
            li.retain(|l| !l.is_empty());
            lo.retain(|l| !l.is_empty());
            // hoisting reorders sub-expressions (and the function-likes inside them): compare as multisets
            li.sort();
            lo.sort();
            if li != lo {
                let k = li.iter().zip(lo.iter()).position(|(x, y)| x != y).unwrap_or(li.len().min(lo.len()));
                return Outcome::fail(
                    "directive-prologue-changed",
                    format!("directive prologue #{k} (pre-order over program and function bodies) is {:?} in the input but {:?} in the output", li.get(k), lo.get(k)),
                );
            }
        }
        let er = match a.erased.as_ref().unwrap() {
            Ok(er) => er,
            Err(e) => return Outcome::skip(format!("round trip failed: {} ({})", e.sig, owner_of(&e.sig))),
        };
        let mut nontrivial = false;
        // file prologue: right after the directive prologue OF THE INPUT
        let body = er.input["body"].as_array().cloned().unwrap_or_default();
        let file_directives = body.iter().take_while(|s| is_directive_or_module_directive(s)).count();
        match er.prologue_index {
            Some(i) => {
                if i != file_directives {
                    return Outcome::fail(
                        "file-prologue-position",
                        format!("the _ddiast prologue starts at statement {i} but the file's directive prologue has {file_directives} directive(s)"),
                    );
                }
                if file_directives > 0 {
                    nontrivial = true;
                }
            }
            None => return Outcome::fail("file-prologue-missing", "modified output without the _ddiast prologue"),
        }
        for l in &er.lets {
            let idx = l["index"].as_u64().unwrap_or(0);
            let dirs = l["directives"].as_u64().unwrap_or(0);
            if idx != dirs {
                return Outcome::fail("let-position", format!("injected `let` at index {idx} of a block whose directive prologue has {dirs} directive(s)"));
            }
            if dirs > 0 {
                nontrivial = true;
            }
        }
        Outcome::pass(nontrivial, classes)
    }
}

/// directive prologues (lists of directive strings) of the program and of every block that is a function-like body
/// or any other block, in pre-order; injected prologue statements and injected `let`s are skipped
fn collect_prologues(v: &Value, prefix: &str, out: &mut Vec<Vec<String>>) {
    match v {
        Value::Object(m) => {
            let t = ty(v);
            let list = if t == "Script" || t == "Module" { m.get("body") } else if t == "BlockStatement" { m.get("stmts") } else { None };
            if let Some(stmts) = list.and_then(|l| l.as_array()) {
                let mut dirs = vec![];
                for s in stmts {
                    if Eraser::is_directive(s) {
                        // `'use strict'` spelled with an escape or a line continuation is a directive, but not a Use Strict
                        // Directive: the two must not be turned into each other
                        let value = s["expression"]["value"].as_str().unwrap_or("").to_string();
                        let raw = s["expression"]["$raw"].as_str().unwrap_or("");
                        let plain = raw.len() >= 2 && raw[1..raw.len() - 1] == value;
                        dirs.push(if value == "use strict" && !plain { format!("{value} (spelled with escapes: no Use Strict Directive)") } else { value });
                    } else {
                        break;
                    }
                }
                out.push(dirs);
            }
            for (k, x) in m {
                if !k.starts_with('$') {
                    collect_prologues(x, prefix, out);
                }
            }
        }
        Value::Array(a) => {
            for x in a {
                // the injected file prologue contains blocks of its own: skip it
                if ty(x) == "IfStatement" && x["test"]["left"]["argument"]["value"] == json!("_ddiast") {
                    continue;
                }
                collect_prologues(x, prefix, out);
            }
        }
        _ => {}
    }
}

fn is_directive_or_module_directive(s: &Value) -> bool {
    Eraser::is_directive(s)
}

// ------------------------------------------------------------------------------------------ C05 (defaults, prologue)

pub struct C05Defaults;

impl Check for C05Defaults {
    fn id(&self) -> &'static str {
        "C05"
    }
    fn max_tape(&self) -> usize {
        120
    }
    fn decode(&self, tape: &[u8], _stream: usize) -> Value {
        let mut t = Tape::new(tape);
        let cfg = gen_cfg(&mut t, &CfgOpts { fixed_prefix: false, rich: false });
        let mut j = cfg.json.clone();
        // some undecodable configurations: they fall back to the default configuration as a whole
        match t.weighted(&[12, 1, 1, 1]) {
            1 => j["csiMethods"] = json!("not a list"),
            2 => j["csiMethods"] = json!([{"dst": "noSource"}]),
            3 => j["chainSourceMap"] = json!("yes"),
            _ => {}
        }
        json!({"cfg": j})
    }
    fn rule(&self) -> String {
        "configuration objects with every combination of omitted options (and undecodable ones), converted through the guarded accessor to the internal \
         configuration; oracle = documented defaults: no chaining, no comments, literals on, replacement name = source name, telemetry INFORMATION (also for unknown \
         strings, any case), prefix = six random lowercase letters differing between rewriters"
            .into()
    }
    fn eval(&self, case: &Value, _ctx: &mut Ctx) -> Outcome {
        let j = &case["cfg"];
        let mut want = info_from_json(j);
        if j.get("chainSourceMap").map(|v| !v.is_boolean() && !v.is_null()).unwrap_or(false) {
            want = info_from_json(&json!("invalid"));
        }
        let c1 = rw::make_config(j);
        let c2 = rw::make_config(j);
        let mut classes = vec![];
        if c1.chain_source_map != want.chain {
            return Outcome::fail("default-chain", format!("chain_source_map = {} for {}", c1.chain_source_map, j));
        }
        if c1.print_comments != want.comments {
            return Outcome::fail("default-comments", format!("print_comments = {} for {}", c1.print_comments, j));
        }
        if c1.literals != want.literals {
            return Outcome::fail("default-literals", format!("literals = {} for {}", c1.literals, j));
        }
        let verb = format!("{:?}", c1.verbosity).to_uppercase();
        if verb != want.verbosity {
            return Outcome::fail("default-verbosity", format!("verbosity = {verb}, expected {} for {}", want.verbosity, j));
        }
        match &want.prefix {
            Some(p) => {
                if &c1.local_var_prefix != p {
                    return Outcome::fail("prefix", format!("prefix {:?} instead of the configured {:?}", c1.local_var_prefix, p));
                }
                classes.push("prefix:given".to_string());
            }
            None => {
                let ok = |s: &str| s.len() == 6 && s.bytes().all(|b| b.is_ascii_lowercase());
                if !ok(&c1.local_var_prefix) || !ok(&c2.local_var_prefix) {
                    return Outcome::fail("default-prefix", format!("default prefix {:?} is not six lowercase letters", c1.local_var_prefix));
                }
                // two rewriters with the same default prefix: 26^-6, counted, not alarmed
                if c1.local_var_prefix == c2.local_var_prefix {
                    classes.push("prefix:collision".to_string());
                } else {
                    classes.push("prefix:random-distinct".to_string());
                }
            }
        }
        // replacement names
        let got: Vec<(String, String)> = c1.csi_methods.methods.iter().map(|m| (m.src.clone(), m.dst.clone())).collect();
        let dsts = iast_mirror::verif_hooks::verif_access::csi_methods_dst(&c1);
        if dsts != want.all_dst {
            return Outcome::fail("default-dst", format!("replacement names {:?}, expected {:?} (dst omitted => source name)", dsts, want.all_dst));
        }
        let _ = got;
        Outcome::pass(want.valid && want.prefix.is_none(), classes)
    }
}

pub struct C05Prologue;

impl Check for C05Prologue {
    fn id(&self) -> &'static str {
        "C05"
    }
    fn max_tape(&self) -> usize {
        400
    }
    fn decode(&self, tape: &[u8], _stream: usize) -> Value {
        crate::props_dynamic::decode_exec_case(tape, crate::props_dynamic::Focus::General)
    }
    fn rule(&self) -> String {
        "the emitted prologue executed in Node in three realms: no _ddiast (every configured replacement name becomes a pass-through and the file runs like the \
         original), a complete pre-existing _ddiast (same object, no property overwritten), hooks installed after the file was loaded (they are the ones called)"
            .into()
    }
    fn eval(&self, case: &Value, ctx: &mut Ctx) -> Outcome {
        let (src, cfg, file) = case_parts(case);
        let out = rw::rewrite_simple(&cfg.json, &src, &file);
        let content = match &out {
            rw::Outcome::Ok(v) if v["metrics"]["status"] == json!("modified") => v["content"].as_str().unwrap_or("").to_string(),
            rw::Outcome::Ok(_) => return Outcome::pass(false, vec![]),
            _ => return Outcome::skip("rewriter error"),
        };
        let req = json!({
            "cmd": "prologue", "orig": src, "rewritten": content, "dsts": cfg.all_dst, "hookKinds": crate::props_dynamic::hook_kinds(&cfg),
            "bare": cfg.bare_names(), "entry": case["entry"], "file": file, "seed": case["seeds"][0]
        });
        let resp = match node::call(ctx, &req) {
            Ok(r) => r,
            Err(e) => return Outcome::inconclusive(format!("node worker: {e}")),
        };
        if let Some(e) = resp.get("error") {
            return Outcome::inconclusive(format!("node worker error: {}", e.as_str().unwrap_or("").chars().take(120).collect::<String>()));
        }
        if let Some(p) = resp["problems"].as_array().and_then(|a| a.first()) {
            return Outcome::fail(p["kind"].as_str().unwrap_or("prologue").to_string(), p.to_string());
        }
        Outcome::pass(resp["lateCalls"].as_u64().unwrap_or(0) > 0, vec!["prologue-run".into()])
    }
}
